#!/bin/bash
# Applies every seeded change under seeded/<id>/patch.diff to /repo (undone straight afterwards), runs the quick check of the
# property it breaks, and prints whether the check reported a violation. Usage: ./run_seeded.sh [id ...]
cd "$(dirname "$0")"
ids="$@"; [ -z "$ids" ] && ids=$(ls seeded)
for id in $ids; do
  p=$(python3 -c "import json;print(json.load(open('seeded/$id/meta.json'))['property'])")
  if ! git -C /repo diff --quiet; then echo "/repo has uncommitted changes; aborting"; exit 2; fi
  if git -C /repo apply --3way "$PWD/seeded/$id/patch.diff" >/dev/null 2>&1; then
    git -C /repo reset -q
    out=$(./check.sh $p quick 2>&1); rc=$?
    nv=$(echo "$out" | grep -c "^VIOLATION property=$p")
    first=$(echo "$out" | grep "^VIOLATION" | head -1 | sed 's/.*obligation=//' | cut -c1-140)
    echo "$id property=$p exit=$rc violations=$nv first=$first"
    git -C /repo checkout -- .
  else
    echo "$id property=$p PATCH-DOES-NOT-APPLY"
    git -C /repo checkout -- . ; git -C /repo reset -q
  fi
done
