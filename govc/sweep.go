package main

// Zero-annotation safety sweep: index / slice / nil-dereference / unchecked type assertion / nil-map write /
// explicit panic / division by zero obligations for every function of the listed packages, generated under the
// path conditions of the enclosing code. Only obligations recorded in the baseline are binding.

import (
	"sort"
	"strings"

	"golang.org/x/tools/go/ssa"
)

func runSweep(w *World, pkgs []string, skip map[*ssa.Function]bool) []*FnResult {
	var fns []*ssa.Function
	for path, sp := range w.SSAPkgs {
		if !strings.HasPrefix(path, repoMod) {
			continue
		}
		rel := strings.TrimPrefix(strings.TrimPrefix(path, repoMod), "/")
		match := false
		for _, p := range pkgs {
			if rel == p || strings.HasPrefix(rel, strings.TrimSuffix(p, "/...")+"/") && strings.HasSuffix(p, "/...") || (strings.HasSuffix(p, "/...") && rel == strings.TrimSuffix(p, "/...")) {
				match = true
			}
		}
		if !match {
			continue
		}
		for fn := range allFuncsOf(w, sp) {
			if len(fn.Blocks) == 0 || fn.Name() == "init" || strings.HasPrefix(fn.Name(), "init#") {
				continue
			}
			if fn.TypeParams().Len() > 0 && len(fn.TypeArgs()) == 0 {
				continue
			}
			if isGenericRecv(fn) {
				continue
			}
			if fn.Pkg != sp && fn.Parent() == nil {
				continue
			}
			fns = append(fns, fn)
		}
	}
	sort.Slice(fns, func(i, j int) bool { return funcDisplayName(fns[i]) < funcDisplayName(fns[j]) })
	var out []*FnResult
	for _, fn := range fns {
		if skip[fn] {
			continue // verified under its contract in this same check
		}
		r := verifyFunction(w, fn, nil, true)
		r.Kind = "sweep"
		// drop vacuity probes and mark obligations as sweep obligations
		keep := r.Obls[:0]
		for _, o := range r.Obls {
			if o.Kind == "reach" {
				continue
			}
			o.Fn = "sweep:" + o.Fn
			keep = append(keep, o)
		}
		r.Obls = keep
		out = append(out, r)
	}
	return out
}
