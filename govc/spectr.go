package main

// Translation of specification expressions to SMT terms, relative to a symbolic state.

import (
	"go/ast"
	"os"
	"runtime/debug"
	"fmt"
	"go/constant"
	"go/token"
	"go/types"
	"regexp"
	"strconv"
	"strings"

	"golang.org/x/tools/go/packages"
	"golang.org/x/tools/go/ssa"
)

type SpecEnv struct {
	curBlock *ssa.BasicBlock // block of the program point of an assert/assume clause (nil: unknown)
	e         *Engine
	vars      map[string]Val
	lets      map[string]SExpr
	st, old   *State
	pkg       *packages.Package
	pos       token.Pos
	entryVals map[string]Val
	loop      *loopInfo
	fc        *fnCtx
	depth     int
	inTrigger bool
	at        token.Pos // source position of the program point of a call-site / return-site clause (lexical scoping of locals)
}

func (env *SpecEnv) with(st *State) *SpecEnv {
	n := *env
	n.st = st
	return &n
}

func (env *SpecEnv) bind(name string, v Val) *SpecEnv {
	n := *env
	n.vars = make(map[string]Val, len(env.vars)+1)
	for k, x := range env.vars {
		n.vars[k] = x
	}
	n.vars[name] = v
	return &n
}

type specError struct{ msg string }

func (e *Engine) specFail(env *SpecEnv, msg string) {
	if os.Getenv("GOVC_DEBUG_SPEC") != "" {
		debug.PrintStack()
	}
	panic(specError{msg})
}

var tInt = types.Typ[types.Int]
var tBool = types.Typ[types.Bool]
var tString = types.Typ[types.String]

func boolVal(t string) Val { return Val{T: t, S: "Bool", GoT: tBool} }
func intVal(t string) Val  { return Val{T: t, S: "Int", GoT: tInt} }

func (e *Engine) trSpec(env *SpecEnv, x SExpr) Val {
	switch n := x.(type) {
	case SInt:
		v, err := strconv.ParseInt(n.V, 0, 64)
		if err != nil {
			return intVal(n.V)
		}
		return intVal(intLit(v))
	case SStr:
		return Val{T: smtString(n.V), S: "String", GoT: tString}
	case SBool:
		if n.V {
			return boolVal("true")
		}
		return boolVal("false")
	case SNil:
		return Val{T: "0", S: "Int", GoT: types.Typ[types.UntypedNil]}
	case SIdent:
		return e.trIdent(env, n.Name)
	case SUn:
		return e.trUnary(env, n)
	case SBin:
		return e.trBinary(env, n)
	case SCond:
		c := e.trSpec(env, n.C)
		a, b := e.trSpec(env, n.A), e.trSpec(env, n.B)
		a, b = e.unify(a, b)
		return Val{T: ite(c.T, a.T, b.T), S: a.S, GoT: a.GoT}
	case SQuant:
		cur := env
		var decls []string
		for _, v := range n.Vars {
			t, err := e.w.resolveType(env.pkg, env.pos, v.Type)
			if err != nil {
				e.specFail(env, err.Error())
			}
			s := e.sortOf(t)
			name := "q_" + sanitize(v.Name) + "!" + fmt.Sprint(e.sc.n)
			e.sc.n++
			decls = append(decls, "("+name+" "+s+")")
			cur = cur.bind(v.Name, Val{T: name, S: s, GoT: t})
		}
		body := e.trSpec(cur, n.Body)
		q := "exists"
		if n.All {
			q = "forall"
		}
		if len(n.Trigs) > 0 {
			var pats []string
			for _, tr := range n.Trigs {
				var ts []string
				tenv := *cur
				tenv.inTrigger = true
				for _, t := range tr {
					ts = append(ts, e.trSpec(&tenv, t).T)
				}
				pats = append(pats, ":pattern ("+strings.Join(ts, " ")+")")
				if !n.All && len(tr) == 1 {
					// exists j :: {s[j]} ...: to prove it the solver must find the witness index; the element term of
					// the *current* slice value usually does not occur yet (the witness is known for an earlier value of
					// the slice), so the bare index term is offered as an alternative pattern
					if ix, ok := tr[0].(SIndex); ok {
						xv := e.trSpec(&tenv, ix.X)
						if xv.S == "Slice" {
							iv := e.trSpec(&tenv, ix.I)
							pats = append(pats, ":pattern ((ix (s_off "+xv.T+") "+iv.T+"))")
						}
					}
				}
			}
			return boolVal("(" + q + " (" + strings.Join(decls, " ") + ") (! " + body.T + " " + strings.Join(pats, " ") + "))")
		}
		return boolVal("(" + q + " (" + strings.Join(decls, " ") + ") " + body.T + ")")
	case SSel:
		return e.trSelector(env, n)
	case SIndex:
		return e.trIndex(env, n)
	case SSlice:
		return e.trSliceExpr(env, n)
	case SCall:
		return e.trCall(env, n)
	}
	e.specFail(env, fmt.Sprintf("unsupported spec expression %T", x))
	return Val{}
}

// unify adapts an untyped nil to the sort of the other operand.
func (e *Engine) unify(a, b Val) (Val, Val) {
	isNil := func(v Val) bool {
		bt, ok := v.GoT.(*types.Basic)
		return ok && bt.Kind() == types.UntypedNil
	}
	if isNil(a) && !isNil(b) {
		a = e.nilOf(b)
	} else if isNil(b) && !isNil(a) {
		b = e.nilOf(a)
	}
	if a.S == "Real" && b.S == "Int" {
		b = Val{T: "(to_real " + b.T + ")", S: "Real", GoT: a.GoT}
	} else if b.S == "Real" && a.S == "Int" {
		a = Val{T: "(to_real " + a.T + ")", S: "Real", GoT: b.GoT}
	}
	return a, b
}

func (e *Engine) nilOf(like Val) Val {
	if like.S == "Slice" {
		return Val{T: "(mk_slice 0 0 0 0)", S: "Slice", GoT: like.GoT}
	}
	return Val{T: "0", S: "Int", GoT: like.GoT}
}

func (e *Engine) trIdent(env *SpecEnv, name string) Val {
	if v, ok := env.vars[name]; ok {
		return v
	}
	if l, ok := env.lets[name]; ok {
		return e.trSpec(env, l)
	}
	if name == "$i" {
		return e.loopCounter(env)
	}
	if name == "$n" {
		if env.loop == nil {
			e.specFail(env, "$n outside a loop invariant")
		}
		return intVal(e.heapIn(env.st, iterName(env.loop), "Int"))
	}
	// local variable of the function under verification (invariants)
	if env.fc != nil {
		if v, ok := e.localByName(env, name); ok {
			return v
		}
		// the local was renamed since the baseline was taken (same type, the only new local of that type)
		if nn, ok := env.fc.renames[name]; ok {
			if v, ok := e.localByName(env, nn); ok {
				return v
			}
		}
		// the name still exists elsewhere in the function but not in a scope visible here: the variable meant was
		// renamed - identify it with the only local of the same type that is new since the baseline and visible here
		if base := e.w.BaseLocals[funcDisplayName(env.fc.fn)]; base != nil && (env.loop != nil || env.at.IsValid()) {
			if bt, was := base[name]; was && bt != "?" {
				var hits []Val
				for n2, t2 := range localsOf(env.fc.fn) {
					if _, old := base[n2]; old || t2 != bt || strings.HasPrefix(n2, "$closure") {
						continue
					}
					if v, ok := e.localByName(env, n2); ok {
						hits = append(hits, v)
					}
				}
				if len(hits) == 1 {
					return hits[0]
				}
			}
		}
	}
	if g := e.lookupGhost(env, name); g != nil {
		hn := "GH_" + g.Pkg.PkgPath + "." + g.Name
		s := e.sortOf(g.Type)
		return Val{T: e.heapIn(env.st, hn, s), S: s, GoT: g.Type}
	}
	// package-level object
	if obj := env.pkg.Types.Scope().Lookup(name); obj != nil {
		return e.objVal(env, obj)
	}
	if obj := types.Universe.Lookup(name); obj != nil {
		if c, ok := obj.(*types.Const); ok {
			return e.constObj(c)
		}
	}
	e.specFail(env, "unknown identifier "+name)
	return Val{}
}

func (e *Engine) lookupGhost(env *SpecEnv, name string) *GhostVar {
	if g, ok := e.w.Ghosts[env.pkg.PkgPath+"."+name]; ok {
		return g
	}
	return nil
}

func (e *Engine) constObj(c *types.Const) Val {
	t := c.Type()
	switch c.Val().Kind() {
	case constant.Bool:
		if constant.BoolVal(c.Val()) {
			return boolVal("true")
		}
		return boolVal("false")
	case constant.String:
		return Val{T: smtString(constant.StringVal(c.Val())), S: "String", GoT: t}
	case constant.Int:
		s := c.Val().ExactString()
		if strings.HasPrefix(s, "-") {
			s = "(- " + s[1:] + ")"
		}
		return Val{T: s, S: "Int", GoT: t}
	}
	return Val{T: "0", S: "Int", GoT: t}
}

func (e *Engine) objVal(env *SpecEnv, obj types.Object) Val {
	switch o := obj.(type) {
	case *types.Const:
		return e.constObj(o)
	case *types.Var:
		hn := "G_" + o.Pkg().Path() + "." + o.Name()
		s := e.sortOf(o.Type())
		t := e.heapIn(env.st, hn, s)
		e.sentinelFacts(hn, t)
		e.loadFacts(env.st, Val{T: t, S: s}, o.Type())
		return Val{T: t, S: s, GoT: o.Type()}
	case *types.Nil:
		return Val{T: "0", S: "Int", GoT: types.Typ[types.UntypedNil]}
	}
	e.specFail(env, "cannot use "+obj.Name()+" as a value")
	return Val{}
}

func (e *Engine) localByName(env *SpecEnv, name string) (Val, bool) {
	fn := env.fc.fn
	var cands []*ssa.Alloc
	for _, b := range fn.Blocks {
		for _, ins := range b.Instrs {
			if a, ok := ins.(*ssa.Alloc); ok && a.Comment == name {
				cands = append(cands, a)
			}
		}
	}
	// lexical scoping: in a loop invariant a name denotes a variable declared in a scope that encloses the loop or
	// inside the loop; a variable of the same name in a sibling scope is another variable
	if env.loop != nil && len(cands) > 0 {
		if ln := e.loopNode(fn, env.loop.ordinal); ln != nil {
			var vis []*ssa.Alloc
			for _, c := range cands {
				if e.visibleAt(fn, c, ln) {
					vis = append(vis, c)
				}
			}
			cands = vis
		}
	}
	if env.loop == nil && env.at.IsValid() && len(cands) > 0 {
		var vis []*ssa.Alloc
		for _, c := range cands {
			if e.scopeContains(fn, c, env.at) {
				vis = append(vis, c)
			}
		}
		cands = vis
	}
	if len(cands) == 0 {
		return Val{}, false
	}
	pick := cands[0]
	if len(cands) > 1 {
		// prefer the one that is live (has a cell) in the current state and declared closest before the loop
		var live []*ssa.Alloc
		for _, c := range cands {
			if c.Heap {
				live = append(live, c)
			} else if _, ok := env.st.Cells[c]; ok {
				live = append(live, c)
			}
		}
		if len(live) == 1 {
			pick = live[0]
		} else if len(live) > 1 {
			pick = live[len(live)-1]
			if env.loop != nil {
				for _, c := range live {
					if !env.loop.body[c.Block()] || c.Block() == env.loop.header {
						pick = c
					}
				}
			}
		}
	}
	elem := deref(pick.Type())
	if pick.Heap {
		rv, ok := env.fc.regs[pick]
		if !ok {
			return Val{}, false
		}
		a := &Addr{Kind: aPtr, Ref: rv.T, ElemT: elem}
		v := e.load(env.st, a)
		v.GoT = elem
		return v, true
	}
	c, ok := env.st.Cells[pick]
	if !ok {
		return Val{T: e.zero(elem), S: e.sortOf(elem), GoT: elem}, true
	}
	c.GoT = elem
	return c, true
}

// loopNode: the AST node of the k-th loop of fn in source order (the order of loop ordinals).
func (e *Engine) loopNode(fn *ssa.Function, k int) ast.Node {
	nodes, ok := e.loopNodes[fn]
	if !ok {
		var body ast.Node
		switch s := fn.Syntax().(type) {
		case *ast.FuncDecl:
			body = s.Body
		case *ast.FuncLit:
			body = s.Body
		}
		if body != nil {
			ast.Inspect(body, func(n ast.Node) bool {
				switch n.(type) {
				case *ast.FuncLit:
					return false
				case *ast.RangeStmt, *ast.ForStmt:
					nodes = append(nodes, n)
				}
				return true
			})
		}
		if e.loopNodes == nil {
			e.loopNodes = map[*ssa.Function][]ast.Node{}
		}
		e.loopNodes[fn] = nodes
	}
	if k < 0 || k >= len(nodes) {
		return nil
	}
	return nodes[k]
}

// visibleAt: the variable of alloc a is declared in a scope enclosing node n, or inside n.
func (e *Engine) visibleAt(fn *ssa.Function, a *ssa.Alloc, n ast.Node) bool {
	if !a.Pos().IsValid() {
		return true
	}
	if n.Pos() <= a.Pos() && a.Pos() < n.End() {
		return true
	}
	pkg := e.w.Pkgs[fn.Pkg.Pkg.Path()]
	if pkg == nil || pkg.Types == nil {
		return true
	}
	sc := pkg.Types.Scope().Innermost(a.Pos())
	if sc == nil {
		return true
	}
	// the declaring scope is the innermost scope at the declaration that actually holds the name
	for s := sc; s != nil && s != types.Universe; s = s.Parent() {
		if obj := s.Lookup(a.Comment); obj != nil && obj.Pos() == a.Pos() {
			return s.Pos() <= n.Pos() && n.End() <= s.End()
		}
	}
	return true
}

// scopeContains: the scope in which the variable of alloc a is declared contains the source position pos.
func (e *Engine) scopeContains(fn *ssa.Function, a *ssa.Alloc, pos token.Pos) bool {
	if !a.Pos().IsValid() {
		return true
	}
	pkg := e.w.Pkgs[fn.Pkg.Pkg.Path()]
	if pkg == nil || pkg.Types == nil {
		return true
	}
	sc := pkg.Types.Scope().Innermost(a.Pos())
	for s := sc; s != nil && s != types.Universe; s = s.Parent() {
		if obj := s.Lookup(a.Comment); obj != nil && obj.Pos() == a.Pos() {
			return s.Pos() <= pos && pos < s.End()
		}
	}
	return true
}

// loopCounter: number of completed iterations of the current range loop.
func (e *Engine) loopCounter(env *SpecEnv) Val {
	if env.loop == nil {
		e.specFail(env, "$i outside a loop invariant")
	}
	h := env.loop.header
	for _, ins := range h.Instrs {
		if u, ok := ins.(*ssa.UnOp); ok && u.Op == token.MUL {
			if a, ok := u.X.(*ssa.Alloc); ok {
				switch a.Comment {
				case "rangeindex":
					return intVal("(+ " + env.st.Cells[a].T + " 1)")
				case "rangeint.iter":
					return intVal(env.st.Cells[a].T)
				}
			}
		}
	}
	e.specFail(env, "$i: loop "+h.Comment+" is not a range loop")
	return Val{}
}

func (e *Engine) trUnary(env *SpecEnv, n SUn) Val {
	x := e.trSpec(env, n.X)
	switch n.Op {
	case "!":
		return boolVal(not(x.T))
	case "-":
		return Val{T: "(- " + x.T + ")", S: x.S, GoT: x.GoT}
	case "*":
		pt, ok := x.GoT.Underlying().(*types.Pointer)
		if !ok {
			e.specFail(env, "* of non-pointer "+specString(n.X))
		}
		v := e.load(env.st, &Addr{Kind: aPtr, Ref: x.T, ElemT: pt.Elem()})
		v.GoT = pt.Elem()
		return v
	}
	e.specFail(env, "unary "+n.Op)
	return Val{}
}

func (e *Engine) trBinary(env *SpecEnv, n SBin) Val {
	switch n.Op {
	case "&&":
		return boolVal(and(e.trSpec(env, n.X).T, e.trSpec(env, n.Y).T))
	case "||":
		return boolVal(or(e.trSpec(env, n.X).T, e.trSpec(env, n.Y).T))
	case "==>":
		return boolVal(implies(e.trSpec(env, n.X).T, e.trSpec(env, n.Y).T))
	case "<==>":
		return boolVal(eq(e.trSpec(env, n.X).T, e.trSpec(env, n.Y).T))
	}
	a, b := e.unify(e.trSpec(env, n.X), e.trSpec(env, n.Y))
	isStr := a.S == "String"
	switch n.Op {
	case "==", "!=":
		var t string
		if a.S == "Slice" && (b.T == "(mk_slice 0 0 0 0)" || a.T == "(mk_slice 0 0 0 0)") {
			o := a
			if a.T == "(mk_slice 0 0 0 0)" {
				o = b
			}
			t = "(= (s_ref " + o.T + ") 0)"
		} else {
			t = eq(a.T, b.T)
		}
		if n.Op == "!=" {
			t = not(t)
		}
		return boolVal(t)
	case "<", "<=", ">", ">=":
		if isStr {
			switch n.Op {
			case "<":
				return boolVal("(str.< " + a.T + " " + b.T + ")")
			case "<=":
				return boolVal("(str.<= " + a.T + " " + b.T + ")")
			case ">":
				return boolVal("(str.< " + b.T + " " + a.T + ")")
			default:
				return boolVal("(str.<= " + b.T + " " + a.T + ")")
			}
		}
		return boolVal("(" + n.Op + " " + a.T + " " + b.T + ")")
	case "+":
		if isStr {
			return Val{T: "(str.++ " + a.T + " " + b.T + ")", S: "String", GoT: a.GoT}
		}
		return Val{T: "(+ " + a.T + " " + b.T + ")", S: a.S, GoT: a.GoT}
	case "-", "*":
		return Val{T: "(" + n.Op + " " + a.T + " " + b.T + ")", S: a.S, GoT: a.GoT}
	case "/":
		if a.S == "Real" {
			return Val{T: "(/ " + a.T + " " + b.T + ")", S: a.S, GoT: a.GoT}
		}
		return Val{T: "(godiv " + a.T + " " + b.T + ")", S: "Int", GoT: a.GoT}
	case "%":
		return Val{T: "(gomod " + a.T + " " + b.T + ")", S: "Int", GoT: a.GoT}
	case "&":
		return Val{T: "(bitand " + a.T + " " + b.T + ")", S: "Int", GoT: a.GoT}
	case "|":
		return Val{T: "(bitor " + a.T + " " + b.T + ")", S: "Int", GoT: a.GoT}
	case "^":
		return Val{T: "(bitxor " + a.T + " " + b.T + ")", S: "Int", GoT: a.GoT}
	case "&^":
		return Val{T: "(bitandnot " + a.T + " " + b.T + ")", S: "Int", GoT: a.GoT}
	case "<<":
		return Val{T: "(shl " + a.T + " " + b.T + ")", S: "Int", GoT: a.GoT}
	case ">>":
		return Val{T: "(shr " + a.T + " " + b.T + ")", S: "Int", GoT: a.GoT}
	}
	e.specFail(env, "binary "+n.Op)
	return Val{}
}

func (e *Engine) trSelector(env *SpecEnv, n SSel) Val {
	// package-qualified name?
	if id, ok := n.X.(SIdent); ok {
		if _, bound := env.vars[id.Name]; !bound {
			if pkg := e.importedPkgIfUnbound(env, id.Name); pkg != nil {
				if g, ok := e.w.Ghosts[pkg.Path()+"."+n.Sel]; ok {
					hn := "GH_" + g.Pkg.PkgPath + "." + g.Name
					s := e.sortOf(g.Type)
					return Val{T: e.heapIn(env.st, hn, s), S: s, GoT: g.Type}
				}
				obj := pkg.Scope().Lookup(n.Sel)
				if obj == nil {
					e.specFail(env, "no "+n.Sel+" in package "+id.Name)
				}
				return e.objVal(env, obj)
			}
		}
	}
	x := e.trSpec(env, n.X)
	if x.GoT == nil {
		e.specFail(env, "untyped selector base "+specString(n.X))
	}
	return e.selectField(env, x, n.Sel)
}

func (e *Engine) importedPkg(env *SpecEnv, name string) *types.Package {
	// look through the file scope at env.pos, then through all imports of the package
	if env.pos.IsValid() {
		if sc := env.pkg.Types.Scope().Innermost(env.pos); sc != nil {
			for s := sc; s != nil; s = s.Parent() {
				if obj := s.Lookup(name); obj != nil {
					if pn, ok := obj.(*types.PkgName); ok {
						return pn.Imported()
					}
					return nil
				}
			}
		}
	}
	for _, imp := range env.pkg.Types.Imports() {
		if imp.Name() == name {
			return imp
		}
	}
	// any loaded package with that name (unique names only)
	var found *types.Package
	for _, p := range e.w.Pkgs {
		if p.Types != nil && p.Types.Name() == name {
			if found != nil && found != p.Types {
				return nil
			}
			found = p.Types
		}
	}
	return found
}

func (e *Engine) selectField(env *SpecEnv, x Val, name string) Val {
	obj, index, _ := types.LookupFieldOrMethod(x.GoT, true, env.pkg.Types, name)
	fld, ok := obj.(*types.Var)
	if !ok || !fld.IsField() {
		e.specFail(env, fmt.Sprintf("no field %s in %s", name, x.GoT))
	}
	cur := x
	for _, i := range index {
		t := cur.GoT
		if pt, ok := t.Underlying().(*types.Pointer); ok {
			st := pt.Elem()
			u, _ := isStruct(st)
			hn, hs := e.fieldHeapName(st, u, i)
			ft := u.Field(i).Type()
			t0 := sel(e.heapIn(env.st, hn, hs), cur.T)
			if !env.inTrigger {
				// the pointer may be the address of a struct field of the function under verification
				for _, c := range e.interiorCands(st) {
					inner, _ := e.applyPath(sel(e.heapIn(env.st, c.heap, c.sort), "("+c.owner+" "+cur.T+")"), c.baseT, c.path)
					srt := e.structSort(st, u)
					t0 = ite("(= (pkind "+cur.T+") "+fmt.Sprint(c.id)+")", "("+e.fieldSel(srt, u, i)+" "+inner+")", t0)
				}
			}
			cur = Val{T: t0, S: e.sortOf(ft), GoT: ft}
			continue
		}
		u, ok := isStruct(t)
		if !ok {
			e.specFail(env, "field of non-struct")
		}
		srt := e.structSort(t, u)
		ft := u.Field(i).Type()
		cur = Val{T: "(" + e.fieldSel(srt, u, i) + " " + cur.T + ")", S: e.sortOf(ft), GoT: ft}
	}
	return cur
}

func (e *Engine) trIndex(env *SpecEnv, n SIndex) Val {
	x := e.trSpec(env, n.X)
	i := e.trSpec(env, n.I)
	if x.GoT == nil {
		e.specFail(env, "untyped index base "+specString(n.X))
	}
	switch u := x.GoT.Underlying().(type) {
	case *types.Slice:
		hn, hs := e.sliceHeapName(u.Elem())
		return Val{T: sel(sel(e.heapIn(env.st, hn, hs), "(s_ref "+x.T+")"), "(ix (s_off "+x.T+") "+i.T+")"), S: e.sortOf(u.Elem()), GoT: u.Elem()}
	case *types.Basic:
		return Val{T: "(str.to_code (str.at " + x.T + " " + i.T + "))", S: "Int", GoT: types.Typ[types.Uint8]}
	case *types.Map:
		if env.inTrigger {
			vh, vs, _, _ := e.mapHeapNames(u)
			return Val{T: sel(sel(e.heapIn(env.st, vh, vs), x.T), i.T), S: e.sortOf(u.Elem()), GoT: u.Elem()}
		}
		val, dom := e.mapLoad(env.st, u, x.T, i.T)
		return Val{T: ite(and("(not (= "+x.T+" 0))", dom), val, e.zero(u.Elem())), S: e.sortOf(u.Elem()), GoT: u.Elem()}
	case *types.Array:
		return Val{T: sel(x.T, i.T), S: e.sortOf(u.Elem()), GoT: u.Elem()}
	}
	e.specFail(env, "index of "+x.GoT.String())
	return Val{}
}

func (e *Engine) trSliceExpr(env *SpecEnv, n SSlice) Val {
	x := e.trSpec(env, n.X)
	lo := "0"
	if n.Lo != nil {
		lo = e.trSpec(env, n.Lo).T
	}
	if x.S == "String" {
		hi := "(str.len " + x.T + ")"
		if n.Hi != nil {
			hi = e.trSpec(env, n.Hi).T
		}
		return Val{T: "(str.substr " + x.T + " " + lo + " (- " + hi + " " + lo + "))", S: "String", GoT: x.GoT}
	}
	if x.S == "Slice" {
		hi := "(s_len " + x.T + ")"
		if n.Hi != nil {
			hi = e.trSpec(env, n.Hi).T
		}
		return Val{T: "(mk_slice (s_ref " + x.T + ") (+ (s_off " + x.T + ") " + lo + ") (- " + hi + " " + lo + ") (- (s_cap " + x.T + ") " + lo + "))", S: "Slice", GoT: x.GoT}
	}
	e.specFail(env, "slice expression on "+x.S)
	return Val{}
}

func (e *Engine) trCall(env *SpecEnv, n SCall) Val {
	// method call on an interface value with a pure ispec
	if s, ok := n.Fun.(SSel); ok {
		if id, isId := s.X.(SIdent); !isId || e.importedPkgIfUnbound(env, id.Name) == nil {
			return e.trMethodCall(env, s, n.Args)
		}
		// pkg.func(...)
		id := s.X.(SIdent)
		pkg := e.importedPkg(env, id.Name)
		if sf, ok := e.w.SpecFns[pkg.Path()+"."+s.Sel]; ok {
			return e.applySpecFn(env, sf, n.Args)
		}
		return e.trGoCall(env, pkg.Path()+"."+s.Sel, pkg.Scope().Lookup(s.Sel), n.Args)
	}
	id, ok := n.Fun.(SIdent)
	if !ok {
		e.specFail(env, "unsupported call "+specString(n))
	}
	arg := func(i int) Val { return e.trSpec(env, n.Args[i]) }
	switch id.Name {
	case "len":
		x := arg(0)
		switch u := x.GoT.Underlying().(type) {
		case *types.Slice:
			return intVal("(s_len " + x.T + ")")
		case *types.Basic:
			return intVal("(str.len " + x.T + ")")
		case *types.Map:
			return intVal(ite("(= "+x.T+" 0)", "0", e.mapLenTerm(env.st, u, x.T)))
		case *types.Array:
			return intVal(fmt.Sprint(u.Len()))
		}
		e.specFail(env, "len of "+x.GoT.String())
	case "cap":
		return intVal("(s_cap " + arg(0).T + ")")
	case "old":
		if env.old == nil {
			e.specFail(env, "old() not available here")
		}
		oenv := env.with(env.old)
		// inside old(), parameter names denote their entry values
		oenv.vars = make(map[string]Val, len(env.vars)+len(env.entryVals))
		for k, v := range env.vars {
			oenv.vars[k] = v
		}
		for k, v := range env.entryVals {
			if _, bound := oenv.vars[k]; !bound {
				oenv.vars[k] = v
			}
		}
		return e.trSpec(oenv, n.Args[0])
	case "entry":
		if id2, ok := n.Args[0].(SIdent); ok {
			if v, ok := env.entryVals[id2.Name]; ok {
				return v
			}
		}
		e.specFail(env, "entry(x): x must be a parameter")
	case "mapHas":
		m, k := arg(0), arg(1)
		mt, ok := m.GoT.Underlying().(*types.Map)
		if !ok {
			e.specFail(env, "mapHas on non-map")
		}
		_, dom := e.mapLoad(env.st, mt, m.T, k.T)
		if env.inTrigger {
			return boolVal(dom)
		}
		return boolVal(and("(not (= "+m.T+" 0))", dom))
	case "mapGet":
		// mapGet(m, k): the stored value for key k (meaningful only when mapHas(m, k)); a plain array read, usable in triggers
		m, k := arg(0), arg(1)
		mt, ok := m.GoT.Underlying().(*types.Map)
		if !ok {
			e.specFail(env, "mapGet on non-map")
		}
		vh, vs, _, _ := e.mapHeapNames(mt)
		return Val{T: sel(sel(e.heapIn(env.st, vh, vs), m.T), k.T), S: e.sortOf(mt.Elem()), GoT: mt.Elem()}
	case "errIs":
		a, b := arg(0), arg(1)
		return boolVal("(errIs " + a.T + " " + b.T + ")")
	case "sgn":
		return intVal("(sgn " + arg(0).T + ")")
	case "max":
		return intVal("(imax " + arg(0).T + " " + arg(1).T + ")")
	case "min":
		return intVal("(imin " + arg(0).T + " " + arg(1).T + ")")
	case "abs":
		x := arg(0)
		return intVal("(ite (>= " + x.T + " 0) " + x.T + " (- " + x.T + "))")
	case "hasPrefix":
		return boolVal("(str.prefixof " + arg(1).T + " " + arg(0).T + ")")
	case "hasSuffix":
		return boolVal("(str.suffixof " + arg(1).T + " " + arg(0).T + ")")
	case "contains":
		return boolVal("(str.contains " + arg(0).T + " " + arg(1).T + ")")
	case "indexOf":
		return intVal("(str.indexof " + arg(0).T + " " + arg(1).T + " 0)")
	case "dyntype":
		return intVal("(dyntype " + arg(0).T + ")")
	case "isType":
		// isType(x, T): dynamic type of interface x is exactly T
		x := arg(0)
		tn := specString(n.Args[1])
		t, err := e.w.resolveType(env.pkg, env.pos, tn)
		if err != nil {
			e.specFail(env, err.Error())
		}
		if types.IsInterface(t) {
			return boolVal(e.implementsTerm(x.T, t))
		}
		return boolVal("(= (dyntype " + x.T + ") " + e.typeTag(t) + ")")
	case "unbox":
		x := arg(0)
		tn := specString(n.Args[1])
		t, err := e.w.resolveType(env.pkg, env.pos, tn)
		if err != nil {
			e.specFail(env, err.Error())
		}
		_, ub := e.boxFns(t)
		return Val{T: "(" + ub + " " + x.T + ")", S: e.sortOf(t), GoT: t}
	case "trimSpace":
		e.sc.declareFun("trimSpace", []string{"String"}, "String")
		return Val{T: "(trimSpace " + arg(0).T + ")", S: "String", GoT: tString}
	case "pathClean", "pathDir", "pathBase":
		e.sc.declareFun(id.Name, []string{"String"}, "String")
		return Val{T: "(" + id.Name + " " + arg(0).T + ")", S: "String", GoT: tString}
	case "pathJoin":
		e.sc.declareFun("pathJoin", []string{"String", "String"}, "String")
		cur := arg(0).T
		for k := 1; k < len(n.Args); k++ {
			cur = "(pathJoin " + cur + " " + arg(k).T + ")"
		}
		return Val{T: cur, S: "String", GoT: tString}
	case "visited":
		// visited(k): key k was already yielded by the map iteration of the current loop
		vloop := env.loop
		if len(n.Args) == 2 {
			// visited(k, "range m"): the visited set of an enclosing (or earlier) map loop named by its header text
			ks, ok := n.Args[1].(SStr)
			if !ok || env.fc == nil {
				e.specFail(env, "visited(k, \"range <expr>\")")
			}
			ord, ok := resolveLoopKey(loopTexts(env.fc.fn), ks.V)
			if !ok {
				e.specFail(env, "visited(): no loop "+ks.V)
			}
			vloop = nil
			for _, li := range env.fc.loops {
				if li.ordinal == ord {
					vloop = li
				}
			}
		}
		if vloop == nil {
			e.specFail(env, "visited() outside a loop invariant")
		}
		for _, ins := range vloop.header.Instrs {
			if nx, ok := ins.(*ssa.Next); ok {
				if c, ok := env.st.Cells[nx.Iter]; ok {
					return boolVal(sel(c.T, arg(0).T))
				}
			}
		}
		e.specFail(env, "visited(): the current loop is not a range over a map")
	case "tokCount":
		// tokCount(reader): number of tokens (lines, by default) a bufio.Scanner reads from reader
		e.sc.declareFun("tokCount", []string{"Int"}, "Int")
		return intVal("(tokCount " + arg(0).T + ")")
	case "tokAt":
		e.sc.declareFun("tokAt", []string{"Int", "Int"}, "String")
		return Val{T: "(tokAt " + arg(0).T + " " + arg(1).T + ")", S: "String", GoT: tString}
	case "recCount":
		// recCount(reader): number of header blocks a textproto.Reader reads from reader
		e.sc.declareFun("recCount", []string{"Int"}, "Int")
		return intVal("(recCount " + arg(0).T + ")")
	case "recAt":
		e.sc.declareFun("recAt", []string{"Int", "Int"}, "Int")
		t, err := e.w.resolveType(env.pkg, env.pos, "textproto.MIMEHeader")
		if err != nil {
			e.specFail(env, "recAt: "+err.Error())
		}
		return Val{T: "(recAt " + arg(0).T + " " + arg(1).T + ")", S: "Int", GoT: t}
	case "recsRead":
		// recsRead(rd): number of header blocks the textproto.Reader rd has consumed
		return intVal(sel(e.heapIn(env.st, "HF_textproto.Reader_$pos", "(Array Int Int)"), arg(0).T))
	case "scanned":
		// scanned(scanner): number of tokens the scanner has yielded so far
		return intVal(sel(e.heapIn(env.st, "HF_bufio.Scanner_$pos", "(Array Int Int)"), arg(0).T))
	case "scanSrc":
		// scanSrc(scanner): the reader (token source) the scanner reads from
		return Val{T: sel(e.heapIn(env.st, "HF_bufio.Scanner_$src", "(Array Int Int)"), arg(0).T), S: "Int", GoT: types.Universe.Lookup("any").Type()}
	case "scanErr":
		// scanErr(scanner): what Err() returns
		return Val{T: sel(e.heapIn(env.st, "HF_bufio.Scanner_$err", "(Array Int Int)"), arg(0).T), S: "Int", GoT: types.Universe.Lookup("error").Type()}
	case "curKey":
		// curKey("range m"): the key yielded by the current iteration of the named map loop (also when the program
		// discards it with _); curKey() names the loop of the invariant itself
		kloop := env.loop
		if len(n.Args) == 1 {
			ks, ok := n.Args[0].(SStr)
			if !ok || env.fc == nil {
				e.specFail(env, "curKey(\"range <expr>\")")
			}
			ord, ok := resolveLoopKey(loopTexts(env.fc.fn), ks.V)
			if !ok {
				e.specFail(env, "curKey(): no loop "+ks.V)
			}
			kloop = nil
			for _, li := range env.fc.loops {
				if li.ordinal == ord {
					kloop = li
				}
			}
		}
		if kloop == nil {
			e.specFail(env, "curKey() outside a loop invariant")
		}
		for _, ins := range kloop.header.Instrs {
			if nx, ok := ins.(*ssa.Next); ok {
				if v, ok := env.fc.regs[nx]; ok && len(v.Tuple) == 3 {
					return v.Tuple[1]
				}
			}
		}
		e.specFail(env, "curKey(): the loop is not a range over a map (or has not been entered)")
	case "mk":
		// mk(T, f0, f1, ...): a value of struct type T with the given field values (in declaration order)
		t, err := e.w.resolveType(env.pkg, env.pos, specString(n.Args[0]))
		if err != nil {
			e.specFail(env, err.Error())
		}
		u, ok := isStruct(t)
		if !ok || u.NumFields() != len(n.Args)-1 {
			e.specFail(env, "mk(T, fields...): T must be a struct type with that many fields")
		}
		srt := e.structSort(t, u)
		var fs []string
		for k := 1; k < len(n.Args); k++ {
			fs = append(fs, arg(k).T)
		}
		return Val{T: "(mk_" + srt + " " + strings.Join(fs, " ") + ")", S: srt, GoT: t}
	case "decoded":
		// decoded(reader, T): the value a decoder reading from reader stores into a target of type T
		t, err := e.w.resolveType(env.pkg, env.pos, specString(n.Args[1]))
		if err != nil {
			e.specFail(env, err.Error())
		}
		return e.decodedTerm(arg(0).T, t)
	case "res0", "res1", "res2":
		// resK(call): the K-th result of a (pure external) call with several results
		v := arg(0)
		k := int(id.Name[3] - '0')
		if k >= len(v.Tuple) {
			e.specFail(env, id.Name+": the call has fewer results")
		}
		return v.Tuple[k]
	case "resultOf", "argOf":
		// resultOf("callee#k") / argOf("callee#k", i): the result (i-th argument) of the k-th call of callee in the
		// function under verification, as executed on the current path. Only meaningful where that call dominates
		// the clause's program point, which is the specification writer's obligation at call/return/backedge sites
		// (checked: the call must exist and have been executed in the current pass).
		if env.fc == nil || len(n.Args) == 0 {
			e.specFail(env, id.Name+" is only available in assert/assume/invariant clauses")
		}
		ks, ok := n.Args[0].(SStr)
		if !ok {
			e.specFail(env, id.Name+": first argument must be a string literal \"callee#k\"")
		}
		key := "call " + ks.V
		if !strings.Contains(key, "#") {
			key += "#0"
		}
		if env.fc.fn.Pkg != nil {
			name := strings.TrimPrefix(key, "call ")
			if !strings.ContainsAny(name[:strings.Index(name, "#")], "./(") {
				key = "call " + strings.ReplaceAll(env.fc.fn.Pkg.Pkg.Path(), repoMod+"/", "") + "." + name
			}
		}
		var call *ssa.Call
		for _, b := range env.fc.fn.Blocks {
			for _, ins := range b.Instrs {
				if c, ok := ins.(*ssa.Call); ok && e.callKey(env.fc, c.Common(), c) == key {
					call = c
				}
			}
		}
		if call == nil {
			e.specFail(env, id.Name+": no such call in the function: "+key)
		}
		if env.curBlock != nil && call.Block() != env.curBlock && !call.Block().Dominates(env.curBlock) {
			e.specFail(env, id.Name+": the call "+key+" does not dominate this program point")
		}
		if id.Name == "resultOf" {
			v, ok := env.fc.regs[call]
			if !ok {
				e.specFail(env, id.Name+": the call "+key+" was not executed before this program point")
			}
			if len(v.Tuple) > 0 {
				if len(n.Args) == 2 {
					if lit, ok := n.Args[1].(SInt); ok {
						k, _ := strconv.Atoi(lit.V)
						return v.Tuple[k]
					}
				}
				return v.Tuple[0]
			}
			return v
		}
		lit, ok2 := n.Args[1].(SInt)
		if len(n.Args) != 2 || !ok2 {
			e.specFail(env, "argOf(\"callee#k\", i)")
		}
		k, _ := strconv.Atoi(lit.V)
		cargs := call.Common().Args
		if k >= len(cargs) {
			e.specFail(env, "argOf: the call has fewer arguments")
		}
		return e.dataVal(e.val(env.fc, cargs[k]))
	case "lastCopied":
		// number of bytes the most recent io.Copy call reported
		return intVal(e.heapIn(env.st, "GH_io.lastCopied", "Int"))
	case "sprintf1":
		// sprintf1("format", x): fmt.Sprintf(format, x)
		x := arg(1)
		bx := x.T
		if x.GoT != nil && !types.IsInterface(x.GoT) {
			b, _ := e.boxFns(x.GoT)
			bx = "(" + b + " " + x.T + ")"
		}
		e.sc.declareFun("sprintf_1", []string{"String", "Int"}, "String")
		return Val{T: "(sprintf_1 " + arg(0).T + " " + bx + ")", S: "String", GoT: tString}
	case "matches":
		// matches(s, "regex"): s is matched by the Go regular expression literal (translated to an SMT regular expression)
		lit, ok := n.Args[1].(SStr)
		if !ok {
			e.specFail(env, "matches(s, \"literal\")")
		}
		smt, ok := regexMatchSMT(lit.V)
		if !ok {
			e.specFail(env, "regular expression not translatable: "+lit.V)
		}
		return boolVal("(str.in_re " + arg(0).T + " " + smt + ")")
	case "bigOf":
		return intVal(sel(e.heapIn(env.st, "BIGVAL", "(Array Int Int)"), arg(0).T))
	case "splitDir", "splitFile":
		// splitDir(p), splitFile(p): the two results of path.Split(p)
		d, f := e.pathSplitTerms(arg(0).T)
		if id.Name == "splitDir" {
			return Val{T: d, S: "String", GoT: tString}
		}
		return Val{T: f, S: "String", GoT: tString}
	case "toLower":
		// toLower(s): strings.ToLower as the same uninterpreted function the program model uses
		e.sc.declareFun("strlower", []string{"String"}, "String")
		return Val{T: "(strlower " + arg(0).T + ")", S: "String", GoT: tString}
	case "decval":
		// decval(s): the number a decimal numeral denotes (what big.Int.SetString(s, 10) stores; str.to_int for digit strings)
		e.sc.declareFun("decval", []string{"String"}, "Int")
		return intVal("(decval " + arg(0).T + ")")
	case "arrayOf":
		return intVal("(s_ref " + arg(0).T + ")")
	case "deepEqual":
		return pureSpecFuncs["reflect.DeepEqual"](e, env, []Val{arg(0), arg(1)})
	case "splitSrc":
		e.sc.declareFun("splitsrc", []string{"Int", "String"}, "String")
		return Val{T: "(splitsrc (s_ref " + arg(0).T + ") " + arg(1).T + ")", S: "String", GoT: tString}
	case "sliceHas":
		x := arg(0)
		sl, ok := x.GoT.Underlying().(*types.Slice)
		if !ok {
			e.specFail(env, "sliceHas on non-slice")
		}
		return boolVal(e.sliceHasTerm(env.st, x, sl.Elem(), arg(1).T))
	case "cast":
		x := arg(0)
		t, err := e.w.resolveType(env.pkg, env.pos, specString(n.Args[1]))
		if err != nil {
			e.specFail(env, err.Error())
		}
		x.GoT = t
		return x
	case "box":
		x := arg(0)
		bx, _ := e.boxFns(x.GoT)
		return Val{T: "(" + bx + " " + x.T + ")", S: "Int", GoT: types.NewInterfaceType(nil, nil)}
	case "allocated":
		// allocated(p): p existed in the old (pre) state
		return boolVal("(<= " + arg(0).T + " " + e.allocCounter(env.old) + ")")
	case "live":
		// live(p): p has been allocated by now (it is at most the current allocation counter)
		return boolVal("(<= " + arg(0).T + " " + e.allocCounter(env.st) + ")")
	case "fresh":
		return boolVal("(> " + arg(0).T + " " + e.allocCounter(env.old) + ")")
	case "int", "int64", "int32", "uint", "uint64", "uint32", "uint8", "byte", "rune", "mathint":
		x := arg(0)
		x.GoT = tInt
		return x
	case "string":
		x := arg(0)
		if x.S == "Int" {
			return Val{T: "(str.from_code " + x.T + ")", S: "String", GoT: tString}
		}
		return x
	}
	if sf := e.lookupSpecFn(env, id.Name); sf != nil {
		return e.applySpecFn(env, sf, n.Args)
	}
	if obj := env.pkg.Types.Scope().Lookup(id.Name); obj != nil {
		if tn, ok := obj.(*types.TypeName); ok && len(n.Args) == 1 {
			// conversion T(x)
			x := arg(0)
			x.GoT = tn.Type()
			return x
		}
		return e.trGoCall(env, env.pkg.PkgPath+"."+id.Name, obj, n.Args)
	}
	e.specFail(env, "unknown function "+id.Name)
	return Val{}
}

func (e *Engine) importedPkgIfUnbound(env *SpecEnv, name string) *types.Package {
	if _, bound := env.vars[name]; bound {
		return nil
	}
	if env.fc != nil {
		if _, ok := e.localByName(env, name); ok {
			return nil
		}
	}
	return e.importedPkg(env, name)
}

func (e *Engine) lookupSpecFn(env *SpecEnv, name string) *SpecFunc {
	if sf, ok := e.w.SpecFns[env.pkg.PkgPath+"."+name]; ok {
		return sf
	}
	return nil
}

func (e *Engine) applySpecFn(env *SpecEnv, sf *SpecFunc, args []SExpr) Val {
	if len(args) != len(sf.Params) {
		e.specFail(env, fmt.Sprintf("%s expects %d arguments", sf.Name, len(sf.Params)))
	}
	var vals []Val
	for i, a := range args {
		v := e.trSpec(env, a)
		if bt, ok := v.GoT.(*types.Basic); ok && bt.Kind() == types.UntypedNil {
			v = Val{T: e.zero(sf.PTypes[i]), S: e.sortOf(sf.PTypes[i])}
		}
		v.GoT = sf.PTypes[i]
		vals = append(vals, v)
	}
	if sf.Body == nil {
		name := "sf_" + sanitize(sf.Pkg.Types.Name()+"."+sf.Name)
		var sorts, ts []string
		for i, v := range vals {
			sorts = append(sorts, e.sortOf(sf.PTypes[i]))
			ts = append(ts, v.T)
		}
		rs := e.sortOf(sf.ResType)
		e.sc.declareFun(name, sorts, rs)
		return Val{T: app(name, ts...), S: rs, GoT: sf.ResType}
	}
	if env.depth > 20 {
		e.specFail(env, "spec function recursion too deep: "+sf.Name)
	}
	inner := &SpecEnv{e: e, vars: map[string]Val{}, lets: map[string]SExpr{}, st: env.st, old: env.old, pkg: sf.Pkg, pos: sf.Pos, entryVals: env.entryVals, depth: env.depth + 1,
		inTrigger: env.inTrigger, fc: env.fc, loop: env.loop, curBlock: env.curBlock}
	for i, p := range sf.Params {
		inner.vars[p.Name] = vals[i]
	}
	r := e.trSpec(inner, sf.Body)
	if bt, ok := r.GoT.(*types.Basic); !ok || bt.Kind() != types.UntypedNil {
		r.GoT = sf.ResType
	}
	return r
}

// trMethodCall: x.M(args) where x is an interface with a pure ispec, or a pure stdlib method.
func (e *Engine) trMethodCall(env *SpecEnv, s SSel, args []SExpr) Val {
	x := e.trSpec(env, s.X)
	if x.GoT == nil {
		e.specFail(env, "untyped receiver "+specString(s.X))
	}
	obj, _, _ := types.LookupFieldOrMethod(x.GoT, true, env.pkg.Types, s.Sel)
	m, ok := obj.(*types.Func)
	if !ok {
		e.specFail(env, fmt.Sprintf("no method %s on %s", s.Sel, x.GoT))
	}
	var vals []Val
	vals = append(vals, x)
	for _, a := range args {
		vals = append(vals, e.trSpec(env, a))
	}
	sig := m.Type().(*types.Signature)
	if types.IsInterface(x.GoT) {
		key := ifaceMethodKey(m)
		ic, ok := e.w.ISpecs[key]
		if ok && !ic.Pure {
			e.specFail(env, "ispec for "+key+" is not pure; cannot be used in specifications")
		}
		return e.pureMethodTerm(key, vals, sig)
	}
	// concrete method: pure stdlib table
	full := m.FullName()
	if h, ok := pureSpecMethods[full]; ok {
		return h(e, env, vals)
	}
	// a loop-free repository method: executed symbolically on the current state
	if fn := e.w.Prog.FuncValue(m); fn != nil && len(fn.Blocks) > 0 && isRepoFn(fn) {
		dummy := &fnCtx{fn: fn}
		if e.canInline(dummy, fn) {
			fsig := fn.Signature
			if fsig.Recv() != nil {
				vals[0].GoT = fsig.Recv().Type()
			}
			for i := 1; i < len(vals); i++ {
				if i-1 < fsig.Params().Len() {
					vals[i].GoT = fsig.Params().At(i - 1).Type()
				}
			}
			e.noBoundVars(env, full, vals)
			e.dry++
			res := e.inlineCall(dummy, env.st.clone(), fn, vals, nil, fsig.Results())
			e.dry--
			if fsig.Results().Len() == 1 {
				res.GoT = fsig.Results().At(0).Type()
			}
			return res
		}
	}
	e.specFail(env, "method "+full+" cannot be used in specifications")
	return Val{}
}

func (e *Engine) pureMethodTerm(key string, vals []Val, sig *types.Signature) Val {
	f := "IM_" + sanitize(key)
	var sorts, ts []string
	for _, v := range vals {
		sorts = append(sorts, v.S)
		ts = append(ts, v.T)
	}
	if sig.Results().Len() != 1 {
		panic(specError{"pure interface method must have exactly one result: " + key})
	}
	rt := sig.Results().At(0).Type()
	e.sc.declareFun(f, sorts, e.sortOf(rt))
	return Val{T: app(f, ts...), S: e.sortOf(rt), GoT: rt}
}

// trGoCall: a real Go function used in a specification (only table-driven pure ones).
func (e *Engine) trGoCall(env *SpecEnv, full string, obj types.Object, args []SExpr) Val {
	var vals []Val
	for _, a := range args {
		vals = append(vals, e.trSpec(env, a))
	}
	if h, ok := pureSpecFuncs[full]; ok {
		return h(e, env, vals)
	}
	// a loop-free repository function: its value is obtained by executing its body symbolically
	if fobj, ok := obj.(*types.Func); ok {
		if fn := e.w.Prog.FuncValue(fobj); fn != nil && len(fn.Blocks) > 0 {
			dummy := &fnCtx{fn: fn}
			if e.canInline(dummy, fn) {
				sig := fn.Signature
				for i := range vals {
					if i < sig.Params().Len() {
						vals[i].GoT = sig.Params().At(i).Type()
					}
				}
				e.noBoundVars(env, full, vals)
				e.dry++
				res := e.inlineCall(dummy, env.st.clone(), fn, vals, nil, sig.Results())
				e.dry--
				if sig.Results().Len() == 1 {
					res.GoT = sig.Results().At(0).Type()
				}
				return res
			}
		}
	}
	e.specFail(env, "function "+full+" cannot be used in specifications")
	return Val{}
}

var boundVarRe = regexp.MustCompile(`\bq_[A-Za-z0-9_]+![0-9]+`)

// noBoundVars: a repository function used in a specification is executed symbolically, which emits named definitions
// at the top level of the script; its arguments therefore must not mention a quantified variable.
func (e *Engine) noBoundVars(env *SpecEnv, fn string, vals []Val) {
	for _, v := range vals {
		if boundVarRe.MatchString(v.T) {
			e.specFail(env, "repository function "+fn+" applied to a quantified variable: give it a contract with a pure spec function and use that instead")
		}
	}
}
