package main

// Contract files: //@ directives in //go:build verif files inside /repo.

import (
	"fmt"
	"go/ast"
	"go/parser"
	"go/token"
	"go/types"
	"regexp"
	"strconv"
	"strings"

	"golang.org/x/tools/go/packages"
	"golang.org/x/tools/go/ssa"
)

type Clause struct {
	Key   string // loop key text for keyed invariants
	Label string
	Text  string
	E     SExpr
	Where string
}

type Contract struct {
	Pkg        *packages.Package
	Pos        token.Pos
	Header     string
	Recv, Name string
	Params     []string // parameter names in header order (receiver first if any)
	Requires   []Clause
	Ensures    []Clause
	Invariants map[int][]Clause
	Decreases  map[int]Clause
	KeyedInv   map[string][]Clause // invariants keyed by loop source text ("range x.y", "for i < n")
	KeyedDec   map[string]Clause
	KeyOrder   []string            // loop keys in order of first appearance in the contract
	Preserves  map[string][]SExpr  // preserves[call f#k] designators: the caller assumes the call leaves these locations unchanged
	PreserveAll map[string]bool    // preserves[call f#k] * : the call changes no location that existed before it (it may allocate)
	Assumes    map[string][]Clause // assume[call f#k] e : trusted call-site assumption about the environment (results as result, result1, ...)
	Closures   map[int]Clause      // closure[k]: functional specification of the k-th function literal ($0, $1 ... are its parameters)
	Asserts    map[string][]Clause // "call os.Symlink#0" -> assertions checked right before that call
	Modifies   []SExpr
	ModAll     bool
	Lets       []LetDef
	Pure       bool
	Trusted    bool
	NoInline   bool
	HintMapLen bool // prover hint: after m[k] = v state that len(m) > 0 (true of every map; costly for the solver, so opt-in)
	IsISpec    bool
	IfaceKey   string
	Fn         *ssa.Function
	Sig        *types.Signature
	Where      string
}

type LetDef struct {
	Name string
	E    SExpr
}

type SpecFunc struct {
	Pkg     *packages.Package
	Pos     token.Pos
	Name    string
	Params  []SVar
	PTypes  []types.Type
	ResType types.Type
	Body    SExpr // nil for abstract
	Where   string
}

type GhostVar struct {
	Pkg   *packages.Package
	Name  string
	Type  types.Type
	Where string
}

type Lemma struct {
	Pkg      *packages.Package
	Pos      token.Pos
	Name     string
	Params   []SVar
	PTypes   []types.Type
	Requires []Clause
	Ensures  []Clause
	Where    string
}

type Axiom struct {
	Pkg   *packages.Package
	Pos   token.Pos
	Name  string
	E     SExpr
	Where string
}

type directive struct {
	head  string
	lines []string
	pos   token.Pos
	where string
}

var labelRe = regexp.MustCompile(`^(requires|ensures|invariant|decreases|assert)(\[([^\]]*)\])?\s+(.*)$`)

// parseContracts scans every repo package for //@ directives.
func (w *World) parseContracts() error {
	for _, p := range w.repoPackages() {
		for _, f := range p.Syntax {
			var dirs []*directive
			for _, cg := range f.Comments {
				for _, c := range cg.List {
					if !strings.HasPrefix(c.Text, "//@") {
						continue
					}
					body := c.Text[3:]
					if strings.TrimSpace(body) == "" {
						continue
					}
					pos := w.Fset.Position(c.Pos())
					where := fmt.Sprintf("%s:%d", strings.TrimPrefix(pos.Filename, w.RepoDir+"/"), pos.Line)
					if len(body) > 1 && body[0] == ' ' && body[1] != ' ' && body[1] != '\t' {
						dirs = append(dirs, &directive{head: strings.TrimSpace(body), pos: c.Pos(), where: where})
					} else if len(dirs) > 0 {
						d := dirs[len(dirs)-1]
						d.lines = append(d.lines, strings.TrimSpace(body))
					} else {
						return fmt.Errorf("%s: continuation line without directive", where)
					}
				}
			}
			for _, d := range dirs {
				if err := w.addDirective(p, d); err != nil {
					return fmt.Errorf("%s: %v", d.where, err)
				}
			}
		}
	}
	return nil
}

func (w *World) resolveType(p *packages.Package, pos token.Pos, text string) (types.Type, error) {
	text = strings.TrimSpace(text)
	switch text {
	case "mathint":
		return types.Typ[types.Int], nil
	case "":
		return nil, fmt.Errorf("empty type")
	}
	tv, err := types.Eval(w.Fset, p.Types, pos, text)
	if err != nil {
		// fall back to the file scopes of the package's other files (their imports)
		for _, f := range p.Syntax {
			if tv2, err2 := types.Eval(w.Fset, p.Types, f.Name.End(), text); err2 == nil {
				tv, err = tv2, nil
				break
			}
		}
	}
	if err != nil {
		// last resort: pkgname.Type resolved against every loaded package of that name
		if t := w.resolveQualified(text); t != nil {
			return t, nil
		}
		return nil, fmt.Errorf("cannot resolve type %q: %v", text, err)
	}
	if !tv.IsType() {
		return nil, fmt.Errorf("%q is not a type", text)
	}
	return tv.Type, nil
}

func (w *World) addDirective(p *packages.Package, d *directive) error {
	head := d.head
	switch {
	case strings.HasPrefix(head, "contract func "), strings.HasPrefix(head, "ispec func "):
		isI := strings.HasPrefix(head, "ispec")
		hdr := strings.TrimSpace(head[strings.Index(head, "func"):])
		c := &Contract{Pkg: p, Pos: d.pos, Header: hdr, Invariants: map[int][]Clause{}, Decreases: map[int]Clause{}, IsISpec: isI, Where: d.where}
		fd, err := parseFuncHeader(hdr)
		if err != nil {
			return err
		}
		c.Name = fd.Name.Name
		if fd.Recv != nil && len(fd.Recv.List) > 0 {
			r := fd.Recv.List[0]
			c.Recv = types.ExprString(r.Type)
			if len(r.Names) > 0 {
				c.Params = append(c.Params, r.Names[0].Name)
			} else {
				c.Params = append(c.Params, "self")
			}
		}
		for _, f := range fd.Type.Params.List {
			if len(f.Names) == 0 {
				c.Params = append(c.Params, "_")
			}
			for _, n := range f.Names {
				c.Params = append(c.Params, n.Name)
			}
		}
		if err := parseClauses(c, d); err != nil {
			return err
		}
		if isI {
			t, err := w.resolveType(p, d.pos, c.Recv)
			if err != nil {
				return err
			}
			named, ok := t.(*types.Named)
			if !ok {
				return fmt.Errorf("ispec receiver %s is not a named interface", c.Recv)
			}
			obj, _, _ := types.LookupFieldOrMethod(named, true, p.Types, c.Name)
			m, ok := obj.(*types.Func)
			if !ok {
				return fmt.Errorf("ispec: %s has no method %s", c.Recv, c.Name)
			}
			c.Sig = m.Type().(*types.Signature)
			c.IfaceKey = ifaceMethodKey(m)
			w.ISpecs[c.IfaceKey] = c
			return nil
		}
		fn := w.findFunc(p.PkgPath, c.Recv, c.Name)
		if fn == nil {
			// the function the contract was written for no longer exists (removed or renamed): that contract is
			// undecidable on this tree; the other contracts are still checked
			w.MissingTargets = append(w.MissingTargets, p.PkgPath+": "+hdr)
			return nil
		}
		c.Fn = fn
		c.Sig = fn.Signature
		// check parameter names match the real function
		var real []string
		for _, prm := range fn.Params {
			real = append(real, prm.Name())
		}
		if len(real) != len(c.Params) {
			// the signature changed: the contract no longer applies to this function
			w.MissingTargets = append(w.MissingTargets, fmt.Sprintf("%s: %s (the function now has %d parameters)", p.PkgPath, hdr, len(real)))
			return nil
		}
		// parameters are bound by position; a renamed parameter keeps its contract name in the specification
		for _, inst := range w.instancesOf(fn) {
			w.Contracts[inst] = c
		}
		w.Contracts[fn] = c
		return nil
	case strings.HasPrefix(head, "abstract func "), strings.HasPrefix(head, "pure func "):
		abstract := strings.HasPrefix(head, "abstract")
		full := head + " " + strings.Join(d.lines, " ")
		hdr := strings.TrimSpace(full[strings.Index(full, "func"):])
		var bodyText string
		if !abstract {
			i := topLevelEq(hdr)
			if i < 0 {
				return fmt.Errorf("pure func needs '= expr'")
			}
			bodyText = hdr[i+1:]
			hdr = strings.TrimSpace(hdr[:i])
		}
		fd, err := parseFuncHeader(hdr)
		if err != nil {
			return err
		}
		sf := &SpecFunc{Pkg: p, Pos: d.pos, Name: fd.Name.Name, Where: d.where}
		for _, f := range fd.Type.Params.List {
			t, err := w.resolveType(p, d.pos, types.ExprString(f.Type))
			if err != nil {
				return err
			}
			for _, n := range f.Names {
				sf.Params = append(sf.Params, SVar{n.Name, types.ExprString(f.Type)})
				sf.PTypes = append(sf.PTypes, t)
			}
		}
		if fd.Type.Results == nil || len(fd.Type.Results.List) != 1 {
			return fmt.Errorf("spec function needs exactly one result type")
		}
		rt, err := w.resolveType(p, d.pos, types.ExprString(fd.Type.Results.List[0].Type))
		if err != nil {
			return err
		}
		sf.ResType = rt
		if !abstract {
			e, err := parseSpec(bodyText)
			if err != nil {
				return err
			}
			sf.Body = e
		}
		w.SpecFns[p.PkgPath+"."+sf.Name] = sf
		w.SpecFns[p.Types.Name()+"."+sf.Name] = sf
		return nil
	case strings.HasPrefix(head, "ghost var "):
		rest := strings.Fields(strings.TrimPrefix(head, "ghost var "))
		if len(rest) < 2 {
			return fmt.Errorf("ghost var name type")
		}
		t, err := w.resolveType(p, d.pos, strings.Join(rest[1:], " "))
		if err != nil {
			return err
		}
		g := &GhostVar{Pkg: p, Name: rest[0], Type: t, Where: d.where}
		w.Ghosts[p.PkgPath+"."+g.Name] = g
		return nil
	case strings.HasPrefix(head, "axiom "):
		full := strings.TrimPrefix(head, "axiom ") + " " + strings.Join(d.lines, " ")
		i := strings.Index(full, ":")
		if i < 0 {
			return fmt.Errorf("axiom name: expr")
		}
		e, err := parseSpec(full[i+1:])
		if err != nil {
			return err
		}
		w.Axioms = append(w.Axioms, &Axiom{Pkg: p, Pos: d.pos, Name: strings.TrimSpace(full[:i]), E: e, Where: d.where})
		return nil
	case strings.HasPrefix(head, "lemma "):
		hdr := "func " + strings.TrimPrefix(head, "lemma ")
		fd, err := parseFuncHeader(hdr)
		if err != nil {
			return err
		}
		l := &Lemma{Pkg: p, Pos: d.pos, Name: fd.Name.Name, Where: d.where}
		for _, f := range fd.Type.Params.List {
			t, err := w.resolveType(p, d.pos, types.ExprString(f.Type))
			if err != nil {
				return err
			}
			for _, n := range f.Names {
				l.Params = append(l.Params, SVar{n.Name, types.ExprString(f.Type)})
				l.PTypes = append(l.PTypes, t)
			}
		}
		tmp := &Contract{Invariants: map[int][]Clause{}, Decreases: map[int]Clause{}}
		if err := parseClauses(tmp, d); err != nil {
			return err
		}
		l.Requires, l.Ensures = tmp.Requires, tmp.Ensures
		w.Lemmas = append(w.Lemmas, l)
		return nil
	}
	return fmt.Errorf("unknown directive %q", head)
}

func topLevelEq(s string) int {
	depth := 0
	for i := 0; i < len(s); i++ {
		switch s[i] {
		case '(', '[':
			depth++
		case ')', ']':
			depth--
		case '=':
			if depth == 0 && (i+1 >= len(s) || s[i+1] != '=') && (i == 0 || (s[i-1] != '=' && s[i-1] != '!' && s[i-1] != '<' && s[i-1] != '>')) {
				return i
			}
		}
	}
	return -1
}

func parseFuncHeader(hdr string) (*ast.FuncDecl, error) {
	src := "package p\n" + hdr + "\n"
	f, err := parser.ParseFile(token.NewFileSet(), "hdr.go", src, 0)
	if err != nil {
		return nil, fmt.Errorf("bad function header %q: %v", hdr, err)
	}
	for _, d := range f.Decls {
		if fd, ok := d.(*ast.FuncDecl); ok {
			return fd, nil
		}
	}
	return nil, fmt.Errorf("no function in header %q", hdr)
}

func parseClauses(c *Contract, d *directive) error {
	// group continuation lines into clauses
	var clauses []string
	kw := regexp.MustCompile(`^(requires|ensures|invariant|decreases|assert|assume|closure|preserves|modifies|let|pure|trusted|noinline|hint)\b`)
	for _, ln := range d.lines {
		if kw.MatchString(ln) {
			clauses = append(clauses, ln)
		} else if len(clauses) > 0 {
			clauses[len(clauses)-1] += " " + ln
		} else {
			return fmt.Errorf("unexpected line %q", ln)
		}
	}
	for _, cl := range clauses {
		switch {
		case cl == "pure":
			c.Pure = true
		case cl == "trusted":
			c.Trusted = true
		case cl == "noinline":
			c.NoInline = true
		case cl == "hint maplen":
			c.HintMapLen = true
		case strings.HasPrefix(cl, "modifies"):
			rest := strings.TrimSpace(strings.TrimPrefix(cl, "modifies"))
			if rest == "nothing" || rest == "" {
				continue
			}
			if rest == "*" {
				c.ModAll = true
				continue
			}
			for _, part := range splitTop(rest) {
				e, err := parseSpec(part)
				if err != nil {
					return err
				}
				c.Modifies = append(c.Modifies, e)
			}
		case strings.HasPrefix(cl, "let "):
			rest := strings.TrimPrefix(cl, "let ")
			for _, part := range splitLets(rest) {
				i := strings.Index(part, "=")
				if i < 0 {
					return fmt.Errorf("let x = e")
				}
				e, err := parseSpec(part[i+1:])
				if err != nil {
					return err
				}
				c.Lets = append(c.Lets, LetDef{strings.TrimSpace(part[:i]), e})
			}
		default:
			m := splitClauseHead(cl)
			if m == nil {
				return fmt.Errorf("bad clause %q", cl)
			}
			if m[1] == "preserves" {
				key := strings.Join(strings.Fields(m[3]), " ")
				if !strings.HasPrefix(key, "call ") {
					return fmt.Errorf("preserves[call <callee>#k] expected: %q", cl)
				}
				if !strings.Contains(key, "#") {
					key += "#0"
				}
				if c.Preserves == nil {
					c.Preserves = map[string][]SExpr{}
					c.PreserveAll = map[string]bool{}
				}
				if strings.TrimSpace(m[4]) == "*" {
					c.PreserveAll[key] = true
					continue
				}
				for _, part := range splitTop(m[4]) {
					e, err := parseSpec(part)
					if err != nil {
						return err
					}
					c.Preserves[key] = append(c.Preserves[key], e)
				}
				continue
			}
			e, err := parseSpec(m[4])
			if err != nil {
				return err
			}
			clause := Clause{Label: m[3], Text: m[4], E: e, Where: d.where}
			switch m[1] {
			case "requires":
				c.Requires = append(c.Requires, clause)
			case "ensures":
				c.Ensures = append(c.Ensures, clause)
			case "closure":
				n, err := strconv.Atoi(m[3])
				if err != nil {
					return fmt.Errorf("closure[k] needs the ordinal of the function literal: %q", cl)
				}
				if c.Closures == nil {
					c.Closures = map[int]Clause{}
				}
				c.Closures[n] = clause
			case "assume":
				key := strings.Join(strings.Fields(m[3]), " ")
				if !strings.HasPrefix(key, "call ") {
					return fmt.Errorf("assume[call <callee>#k] expected: %q", cl)
				}
				if !strings.Contains(key, "#") {
					key += "#0"
				}
				if c.Assumes == nil {
					c.Assumes = map[string][]Clause{}
				}
				clause.Key = key
				c.Assumes[key] = append(c.Assumes[key], clause)
			case "assert":
				key := strings.Join(strings.Fields(m[3]), " ")
				if !strings.HasPrefix(key, "call ") && !strings.HasPrefix(key, "return") && !strings.HasPrefix(key, "backedge ") {
					return fmt.Errorf("assert[call <callee>#k], assert[return#k] or assert[backedge <loop>] expected: %q", cl)
				}
				if !strings.Contains(key, "#") && !strings.HasPrefix(key, "backedge ") {
					key += "#0"
				}
				if c.Asserts == nil {
					c.Asserts = map[string][]Clause{}
				}
				clause.Key = key
				c.Asserts[key] = append(c.Asserts[key], clause)
			case "invariant", "decreases":
				n, err := strconv.Atoi(m[3])
				if err != nil {
					key := strings.Join(strings.Fields(m[3]), " ")
					if key == "" {
						return fmt.Errorf("%s needs a loop ordinal or key: %q", m[1], cl)
					}
					if c.KeyedInv == nil {
						c.KeyedInv = map[string][]Clause{}
						c.KeyedDec = map[string]Clause{}
					}
					clause.Key = key
					seenKey := false
					for _, k := range c.KeyOrder {
						if k == key {
							seenKey = true
						}
					}
					if !seenKey {
						c.KeyOrder = append(c.KeyOrder, key)
					}
					if m[1] == "invariant" {
						c.KeyedInv[key] = append(c.KeyedInv[key], clause)
					} else {
						c.KeyedDec[key] = clause
					}
					continue
				}
				if m[1] == "invariant" {
					c.Invariants[n] = append(c.Invariants[n], clause)
				} else {
					c.Decreases[n] = clause
				}
			}
		}
	}
	return nil
}

func splitTop(s string) []string {
	var out []string
	depth, start := 0, 0
	for i := 0; i < len(s); i++ {
		switch s[i] {
		case '(', '[':
			depth++
		case ')', ']':
			depth--
		case ',':
			if depth == 0 {
				out = append(out, strings.TrimSpace(s[start:i]))
				start = i + 1
			}
		}
	}
	out = append(out, strings.TrimSpace(s[start:]))
	return out
}

// ifaceMethodKey identifies an interface method by its declaring interface.
func ifaceMethodKey(m *types.Func) string {
	sig := m.Type().(*types.Signature)
	if r := sig.Recv(); r != nil {
		if n, ok := r.Type().(*types.Named); ok {
			if n.Obj().Pkg() == nil {
				return n.Obj().Name() + "." + m.Name()
			}
			return n.Obj().Pkg().Path() + "." + n.Obj().Name() + "." + m.Name()
		}
	}
	if m.Pkg() != nil {
		return m.Pkg().Path() + ".?." + m.Name()
	}
	return "?." + m.Name()
}

// splitClauseHead parses "keyword[label with [nested] brackets] text" into {whole, keyword, "[label]", label, text}.
func splitClauseHead(cl string) []string {
	for _, kw := range []string{"requires", "ensures", "invariant", "decreases", "assert", "assume", "closure", "preserves"} {
		if !strings.HasPrefix(cl, kw) {
			continue
		}
		rest := cl[len(kw):]
		label := ""
		if strings.HasPrefix(rest, "[") {
			depth := 0
			end := -1
			for i := 0; i < len(rest); i++ {
				if rest[i] == '[' {
					depth++
				} else if rest[i] == ']' {
					depth--
					if depth == 0 {
						end = i
						break
					}
				}
			}
			if end < 0 {
				return nil
			}
			label = rest[1:end]
			rest = rest[end+1:]
		}
		if rest == "" || (rest[0] != ' ' && rest[0] != '\t') {
			return nil
		}
		return []string{cl, kw, "[" + label + "]", label, strings.TrimSpace(rest)}
	}
	return nil
}

var qualRe = regexp.MustCompile(`^((?:\*|\[\])*)([A-Za-z_]\w*)\.([A-Za-z_]\w*)$`)

func (w *World) resolveQualified(text string) types.Type {
	m := qualRe.FindStringSubmatch(strings.ReplaceAll(text, " ", ""))
	if m == nil {
		return nil
	}
	var found types.Type
	for _, p := range w.Pkgs {
		if p.Types == nil || p.Types.Name() != m[2] {
			continue
		}
		if obj := p.Types.Scope().Lookup(m[3]); obj != nil {
			if tn, ok := obj.(*types.TypeName); ok {
				found = tn.Type()
				break
			}
		}
	}
	if found == nil {
		return nil
	}
	pre := m[1]
	for len(pre) > 0 {
		if strings.HasSuffix(pre, "*") {
			found = types.NewPointer(found)
			pre = pre[:len(pre)-1]
		} else {
			found = types.NewSlice(found)
			pre = pre[:len(pre)-2]
		}
	}
	return found
}

var letStartRe = regexp.MustCompile(`^\s*[A-Za-z_]\w*\s*=[^=]`)

// splitLets splits "x = e1, y = e2" at top-level commas that start a new binding.
func splitLets(s string) []string {
	var out []string
	depth, start := 0, 0
	for i := 0; i < len(s); i++ {
		switch s[i] {
		case '(', '[', '{':
			depth++
		case ')', ']', '}':
			depth--
		case ',':
			if depth == 0 && letStartRe.MatchString(s[i+1:]) {
				out = append(out, strings.TrimSpace(s[start:i]))
				start = i + 1
			}
		}
	}
	return append(out, strings.TrimSpace(s[start:]))
}
