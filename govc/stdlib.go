package main

// Trusted contracts for standard-library (and a few third-party) functions. Every entry is an ASSUMPTION,
// reported in the evidence file under trusted_base when used.

import (
	"fmt"
	"go/constant"
	"go/types"
	"regexp"
	"strings"

	"golang.org/x/tools/go/ssa"
)

type stdHandler func(e *Engine, fc *fnCtx, st *State, c *ssa.CallCommon, args []Val, resT types.Type) (Val, bool)

var stdlibHandlers map[string]stdHandler

type pureFn func(e *Engine, env *SpecEnv, args []Val) Val

var pureSpecFuncs = map[string]pureFn{}
var pureSpecMethods = map[string]pureFn{}

const reDecimal = `(re.++ (re.opt (re.union (str.to_re "+") (str.to_re "-"))) (re.+ (re.range "0" "9")))`

func tuple(vs ...Val) Val { return Val{S: "Tuple", Tuple: vs} }

func (e *Engine) freshErr(st *State, what string) Val {
	r := e.newRef(st, what)
	return Val{T: r, S: "Int"}
}

func (e *Engine) sliceElem(st *State, s Val, elem types.Type, idx string) string {
	hn, hs := e.sliceHeapName(elem)
	return sel(sel(e.heapIn(st, hn, hs), "(s_ref "+s.T+")"), "(ix (s_off "+s.T+") "+idx+")")
}

// varargsConst returns the elements of a variadic argument built from a constant-size array, if visible.
func (e *Engine) varargsElems(st *State, c *ssa.CallCommon, argIdx int, arg Val) ([]string, bool) {
	if argIdx >= len(c.Args) {
		return nil, false
	}
	if cst, ok := c.Args[argIdx].(*ssa.Const); ok && cst.Value == nil {
		return nil, true
	}
	ssl, ok := c.Args[argIdx].(*ssa.Slice)
	if !ok || ssl.Low != nil || ssl.High != nil {
		return nil, false
	}
	al, ok := ssl.X.(*ssa.Alloc)
	if !ok {
		return nil, false
	}
	arr, ok := deref(al.Type()).Underlying().(*types.Array)
	if !ok || arr.Len() > 16 {
		return nil, false
	}
	var out []string
	for j := int64(0); j < arr.Len(); j++ {
		out = append(out, e.sliceElem(st, arg, arr.Elem(), fmt.Sprint(j)))
	}
	return out, true
}

// varargsStaticTypes: the static types of the values packed into the variadic argument (an array filled by constant-
// index stores of MakeInterface values); nil where unknown.
func varargsStaticTypes(c *ssa.CallCommon, argIdx int) []types.Type {
	if argIdx >= len(c.Args) {
		return nil
	}
	ssl, ok := c.Args[argIdx].(*ssa.Slice)
	if !ok {
		return nil
	}
	al, ok := ssl.X.(*ssa.Alloc)
	if !ok {
		return nil
	}
	arr, ok := deref(al.Type()).Underlying().(*types.Array)
	if !ok || arr.Len() > 16 {
		return nil
	}
	out := make([]types.Type, arr.Len())
	refs := al.Referrers()
	if refs == nil {
		return out
	}
	for _, r := range *refs {
		ia, ok := r.(*ssa.IndexAddr)
		if !ok {
			continue
		}
		cst, ok := ia.Index.(*ssa.Const)
		if !ok || cst.Value == nil {
			continue
		}
		j, _ := constant.Int64Val(cst.Value)
		if ir := ia.Referrers(); ir != nil {
			for _, u := range *ir {
				if stv, ok := u.(*ssa.Store); ok && stv.Addr == ia {
					if mi, ok := stv.Val.(*ssa.MakeInterface); ok && j >= 0 && j < arr.Len() {
						out[j] = mi.X.Type()
					}
				}
			}
		}
	}
	return out
}

func (e *Engine) newStringSlice(st *State, name string) Val {
	v := e.freshVal(name, types.NewSlice(tString))
	ref := e.newRef(st, name)
	e.assume(st, and("(= (s_ref "+v.T+") "+ref+")", "(= (s_off "+v.T+") 0)"))
	return v
}

func constString(v ssa.Value) (string, bool) {
	if c, ok := v.(*ssa.Const); ok && c.Value != nil && c.Value.Kind() == constant.String {
		return constant.StringVal(c.Value), true
	}
	return "", false
}

// regexOf finds the literal pattern of a *regexp.Regexp value that is a package-level variable initialised by MustCompile.
func (e *Engine) regexOf(v ssa.Value) (*regexp.Regexp, bool) {
	u, ok := v.(*ssa.UnOp)
	if !ok {
		if call, ok := v.(*ssa.Call); ok {
			if f := call.Common().StaticCallee(); f != nil && (f.String() == "regexp.MustCompile" || f.String() == "regexp.Compile") {
				if s, ok := constString(call.Common().Args[0]); ok {
					re, err := regexp.Compile(s)
					return re, err == nil
				}
			}
		}
		return nil, false
	}
	g, ok := u.X.(*ssa.Global)
	if !ok || g.Pkg == nil {
		return nil, false
	}
	for _, m := range g.Pkg.Members {
		f, ok := m.(*ssa.Function)
		if !ok || !strings.HasPrefix(f.Name(), "init") {
			continue
		}
		for _, b := range f.Blocks {
			for _, ins := range b.Instrs {
				s, ok := ins.(*ssa.Store)
				if !ok || s.Addr != ssa.Value(g) {
					continue
				}
				if call, ok := s.Val.(*ssa.Call); ok {
					if cf := call.Common().StaticCallee(); cf != nil && cf.String() == "regexp.MustCompile" {
						if lit, ok := constString(call.Common().Args[0]); ok {
							re, err := regexp.Compile(lit)
							return re, err == nil
						}
					}
				}
			}
		}
	}
	return nil, false
}

func init() {
	H := map[string]stdHandler{}
	stdlibHandlers = H
	boolRes := func(t string) (Val, bool) { return Val{T: t, S: "Bool", GoT: tBool}, true }
	strRes := func(e *Engine, t string) (Val, bool) {
		return Val{T: e.sc.define("s", "String", t), S: "String", GoT: tString}, true
	}
	intRes := func(e *Engine, t string) (Val, bool) {
		return Val{T: e.sc.define("n", "Int", t), S: "Int", GoT: tInt}, true
	}

	H["strings.HasPrefix"] = func(e *Engine, fc *fnCtx, st *State, c *ssa.CallCommon, a []Val, r types.Type) (Val, bool) {
		return boolRes("(str.prefixof " + a[1].T + " " + a[0].T + ")")
	}
	H["strings.HasSuffix"] = func(e *Engine, fc *fnCtx, st *State, c *ssa.CallCommon, a []Val, r types.Type) (Val, bool) {
		return boolRes("(str.suffixof " + a[1].T + " " + a[0].T + ")")
	}
	H["strings.Contains"] = func(e *Engine, fc *fnCtx, st *State, c *ssa.CallCommon, a []Val, r types.Type) (Val, bool) {
		return boolRes("(str.contains " + a[0].T + " " + a[1].T + ")")
	}
	H["strings.Index"] = func(e *Engine, fc *fnCtx, st *State, c *ssa.CallCommon, a []Val, r types.Type) (Val, bool) {
		return intRes(e, "(str.indexof "+a[0].T+" "+a[1].T+" 0)")
	}
	H["strings.IndexByte"] = func(e *Engine, fc *fnCtx, st *State, c *ssa.CallCommon, a []Val, r types.Type) (Val, bool) {
		return intRes(e, "(str.indexof "+a[0].T+" (str.from_code "+a[1].T+") 0)")
	}
	H["strings.IndexRune"] = H["strings.IndexByte"]
	lastIndex := func(e *Engine, fc *fnCtx, st *State, c *ssa.CallCommon, a []Val, r types.Type) (Val, bool) {
		v := e.freshVal("lastidx", tInt)
		sub := a[1].T
		if a[1].S == "Int" {
			sub = "(str.from_code " + a[1].T + ")"
		}
		e.assume(st, and("(>= "+v.T+" (- 1))", "(<= (+ "+v.T+" (str.len "+sub+")) (str.len "+a[0].T+"))",
			eq("(>= "+v.T+" 0)", "(str.contains "+a[0].T+" "+sub+")"),
			implies("(>= "+v.T+" 0)", "(= (str.substr "+a[0].T+" "+v.T+" (str.len "+sub+")) "+sub+")")))
		return v, true
	}
	H["strings.LastIndex"] = lastIndex
	H["strings.LastIndexByte"] = lastIndex
	H["strings.IndexAny"] = func(e *Engine, fc *fnCtx, st *State, c *ssa.CallCommon, a []Val, r types.Type) (Val, bool) {
		v := e.freshVal("idxany", tInt)
		e.assume(st, and("(>= "+v.T+" (- 1))", "(< "+v.T+" (str.len "+a[0].T+"))",
			implies("(>= "+v.T+" 0)", "(str.contains "+a[1].T+" (str.at "+a[0].T+" "+v.T+"))"),
			implies("(= "+v.T+" (- 1))", "(forall ((j Int)) (=> (and (<= 0 j) (< j (str.len "+a[0].T+"))) (not (str.contains "+a[1].T+" (str.at "+a[0].T+" j)))))"),
			implies("(>= "+v.T+" 0)", "(forall ((j Int)) (=> (and (<= 0 j) (< j "+v.T+")) (not (str.contains "+a[1].T+" (str.at "+a[0].T+" j)))))")))
		return v, true
	}
	H["strings.IndexFunc"] = func(e *Engine, fc *fnCtx, st *State, c *ssa.CallCommon, a []Val, r types.Type) (Val, bool) {
		v := e.freshVal("idxfn", tInt)
		e.assume(st, and("(>= "+v.T+" (- 1))", "(< "+v.T+" (str.len "+a[0].T+"))"))
		return v, true
	}
	H["strings.TrimPrefix"] = func(e *Engine, fc *fnCtx, st *State, c *ssa.CallCommon, a []Val, r types.Type) (Val, bool) {
		return strRes(e, ite("(str.prefixof "+a[1].T+" "+a[0].T+")", "(str.substr "+a[0].T+" (str.len "+a[1].T+") (- (str.len "+a[0].T+") (str.len "+a[1].T+")))", a[0].T))
	}
	H["strings.TrimSuffix"] = func(e *Engine, fc *fnCtx, st *State, c *ssa.CallCommon, a []Val, r types.Type) (Val, bool) {
		return strRes(e, ite("(str.suffixof "+a[1].T+" "+a[0].T+")", "(str.substr "+a[0].T+" 0 (- (str.len "+a[0].T+") (str.len "+a[1].T+")))", a[0].T))
	}
	trimLike := func(e *Engine, fc *fnCtx, st *State, c *ssa.CallCommon, a []Val, r types.Type) (Val, bool) {
		v := e.freshVal("trim", tString)
		e.assume(st, and("(<= (str.len "+v.T+") (str.len "+a[0].T+"))", "(str.contains "+a[0].T+" "+v.T+")"))
		return v, true
	}
	for _, n := range []string{"Trim", "TrimLeft", "TrimRight", "TrimFunc", "TrimLeftFunc", "TrimRightFunc"} {
		H["strings."+n] = trimLike
	}
	// strings.TrimSpace: a function of its argument (a substring, not longer than it)
	H["strings.TrimSpace"] = func(e *Engine, fc *fnCtx, st *State, c *ssa.CallCommon, a []Val, r types.Type) (Val, bool) {
		e.sc.declareFun("trimSpace", []string{"String"}, "String")
		v := e.sc.define("trim", "String", "(trimSpace "+a[0].T+")")
		e.assume(st, and("(<= (str.len "+v+") (str.len "+a[0].T+"))", "(str.contains "+a[0].T+" "+v+")"))
		return Val{T: v, S: "String", GoT: tString}, true
	}
	caseFn := func(name string) stdHandler {
		return func(e *Engine, fc *fnCtx, st *State, c *ssa.CallCommon, a []Val, r types.Type) (Val, bool) {
			if strings.HasPrefix(a[0].T, "\"") && !strings.Contains(a[0].T, "\\u{") {
				// constant argument: evaluate
				lit := strings.ReplaceAll(a[0].T[1:len(a[0].T)-1], "\"\"", "\"")
				if name == "strlower" {
					return Val{T: smtString(strings.ToLower(lit)), S: "String", GoT: tString}, true
				}
				return Val{T: smtString(strings.ToUpper(lit)), S: "String", GoT: tString}, true
			}
			e.sc.declareFun(name, []string{"String"}, "String")
			t := "(" + name + " " + a[0].T + ")"
			e.assume(st, and("(= (str.len "+t+") (str.len "+a[0].T+"))", "(= ("+name+" "+t+") "+t+")"))
			return Val{T: t, S: "String", GoT: tString}, true
		}
	}
	H["strings.ToLower"] = caseFn("strlower")
	H["strings.ToUpper"] = caseFn("strupper")
	H["strings.Compare"] = func(e *Engine, fc *fnCtx, st *State, c *ssa.CallCommon, a []Val, r types.Type) (Val, bool) {
		return intRes(e, ite("(str.< "+a[0].T+" "+a[1].T+")", "(- 1)", ite(eq(a[0].T, a[1].T), "0", "1")))
	}
	H["strings.EqualFold"] = func(e *Engine, fc *fnCtx, st *State, c *ssa.CallCommon, a []Val, r types.Type) (Val, bool) {
		e.sc.declareFun("equalfold", []string{"String", "String"}, "Bool")
		t := "(equalfold " + a[0].T + " " + a[1].T + ")"
		e.assume(st, implies(eq(a[0].T, a[1].T), t))
		return boolRes(t)
	}
	H["strings.Split"] = func(e *Engine, fc *fnCtx, st *State, c *ssa.CallCommon, a []Val, r types.Type) (Val, bool) {
		v := e.newStringSlice(st, "split")
		s, sep := a[0].T, a[1].T
		e.sc.declareFun("splitsrc", []string{"Int", "String"}, "String")
		e.assume(st, "(= (splitsrc (s_ref "+v.T+") "+sep+") "+s+")")
		elem := func(j string) string { return e.sliceElem(st, v, tString, j) }
		e.assume(st, and(
			implies("(not (= "+sep+" \"\"))", and("(>= (s_len "+v.T+") 1)",
				implies("(not (str.contains "+s+" "+sep+"))", and("(= (s_len "+v.T+") 1)", "(= "+elem("0")+" "+s+")")),
				implies("(str.contains "+s+" "+sep+")", "(>= (s_len "+v.T+") 2)"))),
			implies("(= "+sep+" \"\")", "(<= (s_len "+v.T+") (str.len "+s+"))"),
			"(forall ((j Int)) (! (=> (and (<= 0 j) (< j (s_len "+v.T+"))) (and (str.contains "+s+" "+elem("j")+") (=> (not (= "+sep+" \"\")) (not (str.contains "+elem("j")+" "+sep+"))))) :pattern ("+elem("j")+")))",
		))
		if lit, ok := constString(c.Args[1]); ok && lit != "" {
			// exact shape of the first three parts for a constant non-empty separator
			ln := "(s_len " + v.T + ")"
			sl := fmt.Sprint(len(lit))
			i1 := e.sc.define("spl_i1", "Int", "(str.indexof "+s+" "+sep+" 0)")
			r1 := e.sc.define("spl_r1", "String", "(str.substr "+s+" (+ "+i1+" "+sl+") (str.len "+s+"))")
			i2 := e.sc.define("spl_i2", "Int", "(str.indexof "+r1+" "+sep+" 0)")
			r2 := e.sc.define("spl_r2", "String", "(str.substr "+r1+" (+ "+i2+" "+sl+") (str.len "+r1+"))")
			i3 := e.sc.define("spl_i3", "Int", "(str.indexof "+r2+" "+sep+" 0)")
			has1, has2, has3 := "(>= "+i1+" 0)", "(>= "+i2+" 0)", "(>= "+i3+" 0)"
			e.assume(st, and(
				implies(has1, and("(= "+elem("0")+" (str.substr "+s+" 0 "+i1+"))",
					implies("(not "+has2+")", and("(= "+ln+" 2)", "(= "+elem("1")+" "+r1+")")),
					implies(has2, and("(>= "+ln+" 3)", "(= "+elem("1")+" (str.substr "+r1+" 0 "+i2+"))",
						implies("(not "+has3+")", and("(= "+ln+" 3)", "(= "+elem("2")+" "+r2+")")),
						implies(has3, and("(>= "+ln+" 4)", "(= "+elem("2")+" (str.substr "+r2+" 0 "+i3+"))")))))),
				eq("(= "+ln+" 1)", "(not "+has1+")")))
		}
		return v, true
	}
	H["strings.SplitN"] = func(e *Engine, fc *fnCtx, st *State, c *ssa.CallCommon, a []Val, r types.Type) (Val, bool) {
		v := e.newStringSlice(st, "splitn")
		s, sep, n := a[0].T, a[1].T, a[2].T
		elem := func(j string) string { return e.sliceElem(st, v, tString, j) }
		e.assume(st, and(
			implies("(> "+n+" 0)", "(<= (s_len "+v.T+") "+n+")"),
			implies(and("(not (= "+n+" 0))", "(not (= "+sep+" \"\"))"), "(>= (s_len "+v.T+") 1)"),
			implies("(= "+n+" 0)", "(= (s_len "+v.T+") 0)"),
			implies(and("(not (= "+n+" 0))", "(not (= "+sep+" \"\"))", "(not (str.contains "+s+" "+sep+"))"), and("(= (s_len "+v.T+") 1)", "(= "+elem("0")+" "+s+")")),
			implies(and("(or (< "+n+" 0) (>= "+n+" 2))", "(not (= "+sep+" \"\"))", "(str.contains "+s+" "+sep+")"), "(>= (s_len "+v.T+") 2)"),
			"(forall ((j Int)) (! (=> (and (<= 0 j) (< j (s_len "+v.T+"))) (str.contains "+s+" "+elem("j")+")) :pattern ("+elem("j")+")))",
		))
		// exact result for the common constant limits 2 and 3 (non-empty separator)
		if cst, ok := c.Args[2].(*ssa.Const); ok && cst.Value != nil {
			if k, ok := constant.Int64Val(cst.Value); ok && (k == 2 || k == 3) {
				ln := "(s_len " + v.T + ")"
				sl := "(str.len " + sep + ")"
				i1 := e.sc.define("spl_i1", "Int", "(str.indexof "+s+" "+sep+" 0)")
				rest1 := e.sc.define("spl_r1", "String", "(str.substr "+s+" (+ "+i1+" "+sl+") (str.len "+s+"))")
				has1 := "(str.contains " + s + " " + sep + ")"
				first := "(str.substr " + s + " 0 " + i1 + ")"
				if k == 2 {
					e.assume(st, implies("(not (= "+sep+" \"\"))", implies(has1, and("(= "+ln+" 2)", "(= "+elem("0")+" "+first+")", "(= "+elem("1")+" "+rest1+")"))))
				} else {
					has2 := "(str.contains " + rest1 + " " + sep + ")"
					i2 := e.sc.define("spl_i2", "Int", "(str.indexof "+rest1+" "+sep+" 0)")
					rest2 := "(str.substr " + rest1 + " (+ " + i2 + " " + sl + ") (str.len " + rest1 + "))"
					e.assume(st, implies("(not (= "+sep+" \"\"))", and(
						implies(and(has1, "(not "+has2+")"), and("(= "+ln+" 2)", "(= "+elem("0")+" "+first+")", "(= "+elem("1")+" "+rest1+")")),
						implies(and(has1, has2), and("(= "+ln+" 3)", "(= "+elem("0")+" "+first+")", "(= "+elem("1")+" (str.substr "+rest1+" 0 "+i2+"))", "(= "+elem("2")+" "+rest2+")")))))
				}
			}
		}
		return v, true
	}
	H["strings.Fields"] = func(e *Engine, fc *fnCtx, st *State, c *ssa.CallCommon, a []Val, r types.Type) (Val, bool) {
		v := e.newStringSlice(st, "fields")
		elem := func(j string) string { return e.sliceElem(st, v, tString, j) }
		e.assume(st, and("(<= (s_len "+v.T+") (str.len "+a[0].T+"))",
			"(forall ((j Int)) (! (=> (and (<= 0 j) (< j (s_len "+v.T+"))) (and (str.contains "+a[0].T+" "+elem("j")+") (> (str.len "+elem("j")+") 0))) :pattern ("+elem("j")+")))"))
		return v, true
	}
	H["strings.Cut"] = func(e *Engine, fc *fnCtx, st *State, c *ssa.CallCommon, a []Val, r types.Type) (Val, bool) {
		before, after := e.freshVal("before", tString), e.freshVal("after", tString)
		found := e.sc.define("found", "Bool", "(str.contains "+a[0].T+" "+a[1].T+")")
		e.assume(st, and(
			implies(found, and("(= "+a[0].T+" (str.++ "+before.T+" "+a[1].T+" "+after.T+"))", "(= (str.len "+before.T+") (str.indexof "+a[0].T+" "+a[1].T+" 0))")),
			implies(not(found), and("(= "+before.T+" "+a[0].T+")", "(= "+after.T+" \"\")"))))
		return tuple(before, after, Val{T: found, S: "Bool"}), true
	}
	H["strings.Join"] = func(e *Engine, fc *fnCtx, st *State, c *ssa.CallCommon, a []Val, r types.Type) (Val, bool) {
		v := e.freshVal("joined", tString)
		e.assume(st, and(implies("(= (s_len "+a[0].T+") 0)", "(= "+v.T+" \"\")"),
			implies("(= (s_len "+a[0].T+") 1)", "(= "+v.T+" "+e.sliceElem(st, a[0], tString, "0")+")")))
		return v, true
	}
	H["strings.Count"] = func(e *Engine, fc *fnCtx, st *State, c *ssa.CallCommon, a []Val, r types.Type) (Val, bool) {
		v := e.freshVal("count", tInt)
		e.assume(st, and("(>= "+v.T+" 0)", implies("(not (= "+a[1].T+" \"\"))", eq("(> "+v.T+" 0)", "(str.contains "+a[0].T+" "+a[1].T+")"))))
		return v, true
	}
	H["strconv.Atoi"] = func(e *Engine, fc *fnCtx, st *State, c *ssa.CallCommon, a []Val, r types.Type) (Val, bool) {
		n, err := e.freshVal("atoi", tInt), e.freshVal("atoierr", types.Universe.Lookup("error").Type())
		inre := "(str.in_re " + a[0].T + " " + reDecimal + ")"
		digits := "(str.in_re " + a[0].T + " (re.+ (re.range \"0\" \"9\")))"
		e.assume(st, and(implies("(= "+err.T+" 0)", inre), implies(and(inre, "(<= (str.len "+a[0].T+") 18)"), "(= "+err.T+" 0)"),
			implies(and("(= "+err.T+" 0)", digits), "(= "+n.T+" (str.to_int "+a[0].T+"))"),
			implies("(not (= "+err.T+" 0))", "(> "+err.T+" "+e.allocCounter(st)+")")))
		st.Heaps[allocHeap] = e.sc.define("alloc", "Int", "(imax "+e.allocCounter(st)+" "+err.T+")")
		return tuple(n, err), true
	}
	H["strconv.Itoa"] = func(e *Engine, fc *fnCtx, st *State, c *ssa.CallCommon, a []Val, r types.Type) (Val, bool) {
		v := e.freshVal("itoa", tString)
		e.assume(st, and(implies("(>= "+a[0].T+" 0)", "(= "+v.T+" (str.from_int "+a[0].T+"))"), "(> (str.len "+v.T+") 0)"))
		return v, true
	}
	H["errors.New"] = func(e *Engine, fc *fnCtx, st *State, c *ssa.CallCommon, a []Val, r types.Type) (Val, bool) {
		return e.freshErr(st, "err"), true
	}
	H["errors.Is"] = func(e *Engine, fc *fnCtx, st *State, c *ssa.CallCommon, a []Val, r types.Type) (Val, bool) {
		return boolRes("(errIs " + a[0].T + " " + a[1].T + ")")
	}
	H["errors.Join"] = func(e *Engine, fc *fnCtx, st *State, c *ssa.CallCommon, a []Val, r types.Type) (Val, bool) {
		v := e.freshVal("joinerr", types.Universe.Lookup("error").Type())
		errT := types.Universe.Lookup("error").Type()
		if elems, ok := e.varargsElems(st, c, 0, a[0]); ok {
			var nils []string
			for _, el := range elems {
				nils = append(nils, "(= "+el+" 0)")
			}
			e.assume(st, eq("(= "+v.T+" 0)", and(nils...)))
		} else {
			el := e.sliceElem(st, a[0], errT, "j")
			e.assume(st, eq("(= "+v.T+" 0)", "(forall ((j Int)) (! (=> (and (<= 0 j) (< j (s_len "+a[0].T+"))) (= "+el+" 0)) :pattern ("+el+")))"))
		}
		e.assume(st, implies("(not (= "+v.T+" 0))", "(> "+v.T+" "+e.allocCounter(st)+")"))
		st.Heaps[allocHeap] = e.sc.define("alloc", "Int", "(imax "+e.allocCounter(st)+" "+v.T+")")
		return v, true
	}
	H["fmt.Errorf"] = func(e *Engine, fc *fnCtx, st *State, c *ssa.CallCommon, a []Val, r types.Type) (Val, bool) {
		v := e.freshErr(st, "errorf")
		format, okf := constString(c.Args[0])
		elems, oke := e.varargsElems(st, c, 1, a[1])
		if okf && oke {
			verbs := parseVerbs(format)
			var wrapped []string
			for i, vb := range verbs {
				if vb == 'w' && i < len(elems) {
					wrapped = append(wrapped, elems[i])
				}
			}
			disj := []string{"(= " + v.T + " t)"}
			for _, wv := range wrapped {
				disj = append(disj, "(errIs "+wv+" t)")
			}
			e.sc.assert(implies(st.Reach, "(forall ((t Int)) (! (= (errIs "+v.T+" t) "+or(disj...)+") :pattern ((errIs "+v.T+" t))))"))
		}
		return v, true
	}
	noop := func(e *Engine, fc *fnCtx, st *State, c *ssa.CallCommon, a []Val, r types.Type) (Val, bool) {
		return e.freshVal("ext", r), true
	}
	for _, n := range []string{"fmt.Sprint", "fmt.Sprintln", "fmt.Printf", "fmt.Println", "fmt.Print", "fmt.Fprintf", "fmt.Fprintln", "fmt.Fprint",
		"time.Now", "time.Since", "(time.Time).Sub", "(time.Duration).Seconds", "(time.Time).UnixNano", "(time.Time).Unix", "time.Duration.String",
		"os.IsPermission", "os.IsNotExist", "os.IsExist", "os.Getenv", "strings.Repeat", "strings.Replace", "strings.ReplaceAll", "strings.Title", "strings.Map",
		"strings.ContainsRune", "strings.ContainsAny", "strings.ContainsFunc", "strconv.Quote", "strconv.FormatInt", "strconv.FormatUint", "strconv.FormatBool",
		"path/filepath.Abs", "path/filepath.Rel", "path/filepath.FromSlash", "path/filepath.VolumeName", "path/filepath.Match", "path/filepath.SplitList", "path/filepath.EvalSymlinks",
		"path.Match", "unicode.IsSpace", "unicode.IsUpper", "unicode.IsLower", "unicode.IsPunct",
		"unicode.ToLower", "unicode.ToUpper", "unicode/utf8.ValidString", "unicode/utf8.RuneLen", "regexp.QuoteMeta", "runtime.GOOS"} {
		H[n] = noop
	}
	// external functions treated as deterministic (uninterpreted) functions of their arguments
	for name := range pureExternal {
		name := name
		H[name] = func(e *Engine, fc *fnCtx, st *State, c *ssa.CallCommon, a []Val, r types.Type) (Val, bool) {
			for _, k := range externalNonNil[name] {
				if k < len(a) {
					// the external function dereferences this argument (read in its source): nil panics
					e.addObl(fc.fn, "nilderef", fmt.Sprintf("%s argument %d of %s", e.srcText(c.Pos(), "call"), k, name), c.Pos(), st.Reach, "(not (= "+a[k].T+" 0))")
				}
			}
			return e.pureExternalTerm(name, a, r), true
		}
		pureSpecMethods[name] = func(e *Engine, env *SpecEnv, a []Val) Val {
			return e.pureExternalTerm(name, a, pureExternalResult(env, a, name))
		}
		if !strings.HasPrefix(name, "(") {
			pureSpecFuncs[name] = func(e *Engine, env *SpecEnv, a []Val) Val {
				var rt types.Type = tInt
				if i := strings.LastIndex(name, "."); i > 0 {
					if p := e.w.Pkgs[name[:i]]; p != nil && p.Types != nil {
						if f, ok := p.Types.Scope().Lookup(name[i+1:]).(*types.Func); ok {
							sig := f.Type().(*types.Signature)
							rt = sig.Results()
							if sig.Results().Len() == 1 {
								rt = sig.Results().At(0).Type()
							}
						}
					}
				}
				return e.pureExternalTerm(name, a, rt)
			}
		}
	}
	// slices.Clone: a fresh backing array with the same content (whole array value copied, offset kept)
	H["slices.Clone"] = func(e *Engine, fc *fnCtx, st *State, c *ssa.CallCommon, a []Val, r types.Type) (Val, bool) {
		sl, ok := c.Args[0].Type().Underlying().(*types.Slice)
		if !ok {
			return Val{}, false
		}
		hn, hs := e.sliceHeapName(sl.Elem())
		H0 := e.heapIn(st, hn, hs)
		ref := e.newRef(st, "clone")
		e.setHeapIn(st, hn, hs, store(H0, ref, sel(H0, "(s_ref "+a[0].T+")")))
		e.logStore(hn, ref)
		nref := ite("(= (s_ref "+a[0].T+") 0)", "0", ref)
		return Val{T: e.sc.define("clone", "Slice", "(mk_slice "+nref+" (s_off "+a[0].T+") (s_len "+a[0].T+") (s_len "+a[0].T+"))"), S: "Slice", GoT: r}, true
	}
	// bufio.Scanner as a trusted stream contract: the token sequence of a scanner is a function of its reader (and split
	// function); tokens(src) = tokAt(src, 0) .. tokAt(src, tokCount(src)-1). Scan() advances by one token and returns
	// false at the end of the sequence or, at any point, because of an error that Err() then reports.
	scHeap := func(e *Engine, st *State, f, srt string) string { return e.heapIn(st, "HF_bufio.Scanner_$"+f, "(Array Int "+srt+")") }
	scSet := func(e *Engine, st *State, f, srt, ref, v string) {
		e.setHeapIn(st, "HF_bufio.Scanner_$"+f, "(Array Int "+srt+")", store(scHeap(e, st, f, srt), ref, v))
	}
	H["bufio.NewScanner"] = func(e *Engine, fc *fnCtx, st *State, c *ssa.CallCommon, a []Val, r types.Type) (Val, bool) {
		ref := e.newRef(st, "scanner")
		e.sc.declareFun("tokCount", []string{"Int"}, "Int")
		e.sc.declareFun("tokAt", []string{"Int", "Int"}, "String")
		if !e.sc.declared["tokCountAx"] {
			e.sc.declared["tokCountAx"] = true
			e.sc.assert("(forall ((s Int)) (! (>= (tokCount s) 0) :pattern ((tokCount s))))")
		}
		scSet(e, st, "src", "Int", ref, a[0].T)
		scSet(e, st, "pos", "Int", ref, "0")
		scSet(e, st, "err", "Int", ref, "0")
		e.w.Trusted["bufio.Scanner: the token sequence is a function of the reader; Scan yields the tokens in order and stops at the end or with an error reported by Err"] = true
		return Val{T: ref, S: "Int", GoT: r}, true
	}
	H["(*bufio.Scanner).Scan"] = func(e *Engine, fc *fnCtx, st *State, c *ssa.CallCommon, a []Val, r types.Type) (Val, bool) {
		sc := a[0].T
		e.sc.declareFun("tokCount", []string{"Int"}, "Int")
		src := sel(scHeap(e, st, "src", "Int"), sc)
		pos := sel(scHeap(e, st, "pos", "Int"), sc)
		olderr := sel(scHeap(e, st, "err", "Int"), sc)
		ok := e.sc.declareConst("scanok", "Bool")
		nerr := e.freshVal("scanerr", types.Universe.Lookup("error").Type())
		// a scanner that has stopped stays stopped; otherwise: true => a further token exists; false => end of input or error
		e.assume(st, and(
			implies(ok, and("(= "+olderr+" 0)", "(< "+pos+" (tokCount "+src+"))")),
			implies(and(not(ok), "(= "+nerr.T+" 0)", "(= "+olderr+" 0)"), "(= "+pos+" (tokCount "+src+"))")))
		scSet(e, st, "err", "Int", sc, ite(ok, "0", ite("(= "+olderr+" 0)", nerr.T, olderr)))
		scSet(e, st, "pos", "Int", sc, ite(ok, "(+ "+pos+" 1)", pos))
		return Val{T: ok, S: "Bool", GoT: r}, true
	}
	H["(*bufio.Scanner).Text"] = func(e *Engine, fc *fnCtx, st *State, c *ssa.CallCommon, a []Val, r types.Type) (Val, bool) {
		sc := a[0].T
		e.sc.declareFun("tokAt", []string{"Int", "Int"}, "String")
		src := sel(scHeap(e, st, "src", "Int"), sc)
		pos := sel(scHeap(e, st, "pos", "Int"), sc)
		return Val{T: e.sc.define("tok", "String", "(tokAt "+src+" (- "+pos+" 1))"), S: "String", GoT: r}, true
	}
	H["(*bufio.Scanner).Err"] = func(e *Engine, fc *fnCtx, st *State, c *ssa.CallCommon, a []Val, r types.Type) (Val, bool) {
		return Val{T: sel(scHeap(e, st, "err", "Int"), a[0].T), S: "Int", GoT: r}, true
	}
	H["(*bufio.Scanner).Split"] = func(e *Engine, fc *fnCtx, st *State, c *ssa.CallCommon, a []Val, r types.Type) (Val, bool) {
		// another split function: another (unrelated) token sequence of the same reader
		e.sc.declareFun("tokSplit", []string{"Int"}, "Int")
		scSet(e, st, "src", "Int", a[0].T, "(tokSplit "+sel(scHeap(e, st, "src", "Int"), a[0].T)+")")
		return Val{S: "Tuple"}, true
	}
	H["(*bufio.Scanner).Buffer"] = func(e *Engine, fc *fnCtx, st *State, c *ssa.CallCommon, a []Val, r types.Type) (Val, bool) {
		return Val{S: "Tuple"}, true // changes capacity limits only: they show up as errors
	}
	// net/textproto.Reader.ReadMIMEHeader as a trusted stream contract: the reader's source is a sequence of header
	// blocks recAt(src, 0) .. recAt(src, recCount(src)-1) (blocks separated by blank lines; a block may be empty).
	// A call returns the next block with a nil error, or - at the end of the input - io.EOF together with either an
	// empty header (input ended after a blank line) or the last block (input ended without one). Any other error may
	// occur at any point.
	H["bufio.NewReader"] = func(e *Engine, fc *fnCtx, st *State, c *ssa.CallCommon, a []Val, r types.Type) (Val, bool) {
		ref := e.newRef(st, "bufreader")
		e.setHeapIn(st, "HF_bufio.Reader_$src", "(Array Int Int)", store(e.heapIn(st, "HF_bufio.Reader_$src", "(Array Int Int)"), ref, a[0].T))
		return Val{T: ref, S: "Int", GoT: r}, true
	}
	H["net/textproto.NewReader"] = func(e *Engine, fc *fnCtx, st *State, c *ssa.CallCommon, a []Val, r types.Type) (Val, bool) {
		ref := e.newRef(st, "tpreader")
		src := sel(e.heapIn(st, "HF_bufio.Reader_$src", "(Array Int Int)"), a[0].T)
		e.setHeapIn(st, "HF_textproto.Reader_$src", "(Array Int Int)", store(e.heapIn(st, "HF_textproto.Reader_$src", "(Array Int Int)"), ref, src))
		e.setHeapIn(st, "HF_textproto.Reader_$pos", "(Array Int Int)", store(e.heapIn(st, "HF_textproto.Reader_$pos", "(Array Int Int)"), ref, "0"))
		e.sc.declareFun("recCount", []string{"Int"}, "Int")
		e.sc.declareFun("recAt", []string{"Int", "Int"}, "Int")
		if !e.sc.declared["recCountAx"] {
			e.sc.declared["recCountAx"] = true
			e.sc.assert("(forall ((s Int)) (! (>= (recCount s) 0) :pattern ((recCount s))))")
			e.sc.assert("(forall ((s Int) (k Int)) (! (> (recAt s k) 0) :pattern ((recAt s k))))")
		}
		e.w.Trusted["textproto.Reader.ReadMIMEHeader: the header blocks are a function of the reader; a call yields the next block, or io.EOF with an empty header or with the last block"] = true
		return Val{T: ref, S: "Int", GoT: r}, true
	}
	H["(*net/textproto.Reader).ReadMIMEHeader"] = func(e *Engine, fc *fnCtx, st *State, c *ssa.CallCommon, a []Val, r types.Type) (Val, bool) {
		rd := a[0].T
		e.sc.declareFun("recCount", []string{"Int"}, "Int")
		e.sc.declareFun("recAt", []string{"Int", "Int"}, "Int")
		src := sel(e.heapIn(st, "HF_textproto.Reader_$src", "(Array Int Int)"), rd)
		posH := e.heapIn(st, "HF_textproto.Reader_$pos", "(Array Int Int)")
		pos := e.sc.define("tp_pos", "Int", sel(posH, rd))
		res := e.freshVal("mimehdr", r)
		if len(res.Tuple) != 2 {
			return Val{}, false
		}
		h, errv := res.Tuple[0], res.Tuple[1]
		m, _ := h.GoT.Underlying().(*types.Map)
		if m == nil {
			return Val{}, false
		}
		_, _, dh, ds := e.mapHeapNames(m)
		ks := e.sortOf(m.Key())
		emptyHdr := "(= (select " + e.heapIn(st, dh, ds) + " " + h.T + ") ((as const (Array " + ks + " Bool)) false))"
		eof := e.heapIn(st, "G_io.EOF", "Int")
		e.sentinelFacts("G_io.EOF", eof)
		// textproto reports the end of input as io.EOF itself, never wrapped
		e.assume(st, implies("(errIs "+errv.T+" "+eof+")", "(= "+errv.T+" "+eof+")"))
		n := "(recCount " + src + ")"
		npos := e.sc.declareConst("tp_npos", "Int")
		e.assume(st, and("(>= "+pos+" 0)", "(<= "+pos+" "+n+")", "(not (= "+h.T+" 0))",
			implies("(= "+errv.T+" 0)", and("(< "+pos+" "+n+")", "(= "+h.T+" (recAt "+src+" "+pos+"))", "(= "+npos+" (+ "+pos+" 1))")),
			implies("(= "+errv.T+" "+eof+")", and("(= "+npos+" "+n+")",
				"(or (and (= "+pos+" "+n+") "+emptyHdr+") (and (= (+ "+pos+" 1) "+n+") (= "+h.T+" (recAt "+src+" "+pos+"))))")),
			implies(and("(not (= "+errv.T+" 0))", "(not (= "+errv.T+" "+eof+"))"), "(= "+npos+" "+pos+")")))
		e.setHeapIn(st, "HF_textproto.Reader_$pos", "(Array Int Int)", store(posH, rd, npos))
		return res, true
	}
	// io.ReadAll + golang.org/x/mod/modfile.Parse: the parsed go.mod is a function of the reader the bytes came from
	// (same stream contract as the decoders: decoded(reader, *modfile.File)).
	H["io.ReadAll"] = func(e *Engine, fc *fnCtx, st *State, c *ssa.CallCommon, a []Val, r types.Type) (Val, bool) {
		res := e.freshVal("readall", r)
		if len(res.Tuple) != 2 {
			return Val{}, false
		}
		ref := e.newRef(st, "readall")
		e.sc.declareFun("readsrc", []string{"Int"}, "Int")
		e.assume(st, and("(= (s_ref "+res.Tuple[0].T+") "+ref+")", "(= (s_off "+res.Tuple[0].T+") 0)", "(= (readsrc "+ref+") "+a[0].T+")"))
		return res, true
	}
	H["golang.org/x/mod/modfile.Parse"] = func(e *Engine, fc *fnCtx, st *State, c *ssa.CallCommon, a []Val, r types.Type) (Val, bool) {
		res := e.freshVal("modparse", r)
		if len(res.Tuple) != 2 {
			return Val{}, false
		}
		e.sc.declareFun("readsrc", []string{"Int"}, "Int")
		v := e.decodedTerm("(readsrc (s_ref "+a[1].T+"))", res.Tuple[0].GoT)
		e.assume(st, and(implies("(= "+res.Tuple[1].T+" 0)", and("(= "+res.Tuple[0].T+" "+v.T+")", "(> "+v.T+" 0)", "(<= "+v.T+" "+e.allocCounter(st)+")")),
			implies("(not (= "+res.Tuple[1].T+" 0))", "(= "+res.Tuple[0].T+" 0)")))
		e.w.Trusted["modfile.Parse: the parsed file is a function of the reader its bytes were read from (stream contract); on success it is non-nil"] = true
		return res, true
	}
	// maps.Values / maps.Keys (x/exp and std-lib collectors): a fresh slice holding each present key's value (key)
	// exactly once, in unspecified order - a bijection between the present keys and the indices of the result.
	mapsCollect := func(values bool) stdHandler {
		return func(e *Engine, fc *fnCtx, st *State, c *ssa.CallCommon, a []Val, r types.Type) (Val, bool) {
			m, ok := c.Args[0].Type().Underlying().(*types.Map)
			rs, ok2 := r.Underlying().(*types.Slice)
			if !ok || !ok2 {
				return Val{}, false
			}
			vh, vs, dh, ds := e.mapHeapNames(m)
			ks := e.sortOf(m.Key())
			mref := a[0].T
			domArr := sel(e.heapIn(st, dh, ds), mref)
			has := func(k string) string { return "(and (not (= " + mref + " 0)) (select " + domArr + " " + k + "))" }
			vals := sel(e.heapIn(st, vh, vs), mref)
			hn, hs := e.sliceHeapName(rs.Elem())
			ref := e.newRef(st, "mapscollect")
			arr := e.sc.declareConst("mv_arr", "(Array Int "+e.sortOf(rs.Elem())+")")
			e.setHeapIn(st, hn, hs, store(e.heapIn(st, hn, hs), ref, arr))
			e.logStore(hn, ref)
			ln := e.sc.declareConst("mv_len", "Int")
			idx := e.sc.fresh("mv_idx")
			key := e.sc.fresh("mv_key")
			e.sc.emit("(declare-fun " + idx + " (" + ks + ") Int)")
			e.sc.emit("(declare-fun " + key + " (Int) " + ks + ")")
			elemOf := func(k string) string {
				if values {
					return sel(vals, k)
				}
				return k
			}
			e.assume(st, and("(>= "+ln+" 0)",
				"(forall ((k "+ks+")) (! (=> "+has("k")+" (and (<= 0 ("+idx+" k)) (< ("+idx+" k) "+ln+") (= ("+key+" ("+idx+" k)) k) (= (select "+arr+" (ix 0 ("+idx+" k))) "+elemOf("k")+"))) :pattern ((select "+domArr+" k)) :pattern (("+idx+" k))))",
				"(forall ((i Int)) (! (=> (and (<= 0 i) (< i "+ln+")) (and "+has("("+key+" i)")+" (= ("+idx+" ("+key+" i)) i) (= (select "+arr+" (ix 0 i)) "+elemOf("("+key+" i)")+"))) :pattern ((select "+arr+" (ix 0 i))) :pattern (("+key+" i))))"))
			e.w.Trusted["maps.Values/maps.Keys return each present key's value (key) exactly once, in unspecified order"] = true
			return Val{T: e.sc.define("mv", "Slice", "(mk_slice "+ref+" 0 "+ln+" "+ln+")"), S: "Slice", GoT: r}, true
		}
	}
	// maps.Copy(dst, src): afterwards dst has every key of dst or src; a key of src carries src's value, any other key
	// keeps dst's value
	mapsCopy := func(e *Engine, fc *fnCtx, st *State, c *ssa.CallCommon, a []Val, r types.Type) (Val, bool) {
		m, ok := c.Args[0].Type().Underlying().(*types.Map)
		if !ok {
			return Val{}, false
		}
		vh, vs, dh, ds := e.mapHeapNames(m)
		ks, es := e.sortOf(m.Key()), e.sortOf(m.Elem())
		dst, src := a[0].T, a[1].T
		e.addObl(fc.fn, "nilmap-write", e.srcText(c.Pos(), "call"), c.Pos(), and(st.Reach, "(not (= "+src+" 0))"), "(not (= "+dst+" 0))")
		hd, hv := e.heapIn(st, dh, ds), e.heapIn(st, vh, vs)
		srcDom := func(k string) string { return "(and (not (= " + src + " 0)) (select " + sel(hd, src) + " " + k + "))" }
		nd := e.sc.declareConst("mc_dom", "(Array "+ks+" Bool)")
		nv := e.sc.declareConst("mc_val", "(Array "+ks+" "+es+")")
		e.assume(st, and(
			"(forall ((k "+ks+")) (! (= (select "+nd+" k) (or (select "+sel(hd, dst)+" k) "+srcDom("k")+")) :pattern ((select "+nd+" k))))",
			"(forall ((k "+ks+")) (! (= (select "+nv+" k) (ite "+srcDom("k")+" (select "+sel(hv, src)+" k) (select "+sel(hv, dst)+" k))) :pattern ((select "+nv+" k))))"))
		e.setHeapIn(st, dh, ds, store(hd, dst, nd))
		e.setHeapIn(st, vh, vs, store(hv, dst, nv))
		e.logStore(vh, dst)
		e.logStore(dh, dst)
		e.w.Trusted["maps.Copy: dst gets every entry of src, its other entries stay"] = true
		return Val{S: "Tuple"}, true
	}
	// slices.ContainsFunc / slices.IndexFunc with a function literal that has no side effects (no stores, no calls):
	// the result is some value, memory is unchanged
	pureHOF := func(isIndex bool) stdHandler {
		return func(e *Engine, fc *fnCtx, st *State, c *ssa.CallCommon, a []Val, r types.Type) (Val, bool) {
			if len(a) < 2 || a[1].Clo == nil {
				e.note("pure-HOF model not applicable: the predicate is not a function literal")
				return Val{}, false
			}
			cfn, ok := a[1].Clo.Fn.(*ssa.Function)
			if !ok || !sideEffectFree(cfn) {
				e.note("pure-HOF model not applicable: the predicate literal has side effects or calls")
				return Val{}, false
			}
			if isIndex {
				v := e.freshVal("idxfunc", tInt)
				e.assume(st, and("(<= (- 1) "+v.T+")", "(< "+v.T+" (s_len "+a[0].T+"))"))
				return v, true
			}
			return Val{T: e.sc.declareConst("containsfunc", "Bool"), S: "Bool", GoT: tBool}, true
		}
	}
	H["slices.ContainsFunc"] = pureHOF(false)
	H["slices.IndexFunc"] = pureHOF(true)
	H["maps.Copy"] = mapsCopy
	H["golang.org/x/exp/maps.Copy"] = mapsCopy
	H["golang.org/x/exp/maps.Values"] = mapsCollect(true)
	H["golang.org/x/exp/maps.Keys"] = mapsCollect(false)
	// slices.SortFunc with a specified comparator: the result is a sorted permutation of the input
	H["slices.SortFunc"] = func(e *Engine, fc *fnCtx, st *State, c *ssa.CallCommon, a []Val, r types.Type) (Val, bool) {
		sl, ok := c.Args[0].Type().Underlying().(*types.Slice)
		cmpSpec := e.comparatorSpec(fc, st, c.Args[1], a[1])
		if !ok || cmpSpec == nil {
			return Val{}, false
		}
		hn, hs := e.sliceHeapName(sl.Elem())
		es := e.sortOf(sl.Elem())
		H0 := e.heapIn(st, hn, hs)
		x := a[0].T
		ref, off, ln := "(s_ref "+x+")", "(s_off "+x+")", "(s_len "+x+")"
		old := e.sc.define("sort_old", "(Array Int "+es+")", sel(H0, ref))
		narr := e.sc.declareConst("sort_new", "(Array Int "+es+")")
		perm := e.sc.fresh("perm")
		e.sc.emit("(declare-fun " + perm + " (Int) Int)")
		at := func(arr, i string) Val { return Val{T: sel(arr, "(ix "+off+" "+i+")"), S: es, GoT: sl.Elem()} }
		le := cmpSpec([]Val{at(narr, "i"), at(narr, "j")})
		e.assume(st, and(
			"(forall ((k Int)) (! (=> (or (< k "+off+") (>= k (+ "+off+" "+ln+"))) (= (select "+narr+" k) (select "+old+" k))) :pattern ((select "+narr+" k))))",
			"(forall ((i Int) (j Int)) (! (=> (and (<= 0 i) (< i j) (< j "+ln+")) (<= "+le.T+" 0)) :pattern ((select "+narr+" (ix "+off+" i)) (select "+narr+" (ix "+off+" j)))))",
			"(forall ((i Int)) (! (=> (and (<= 0 i) (< i "+ln+")) (and (<= 0 ("+perm+" i)) (< ("+perm+" i) "+ln+") (= (select "+narr+" (ix "+off+" i)) (select "+old+" (ix "+off+" ("+perm+" i)))))) :pattern ((select "+narr+" (ix "+off+" i)))))",
			"(forall ((i Int) (j Int)) (! (=> (and (<= 0 i) (< i j) (< j "+ln+")) (not (= ("+perm+" i) ("+perm+" j)))) :pattern (("+perm+" i) ("+perm+" j))))",
			"(forall ((m Int)) (! (=> (and (<= 0 m) (< m "+ln+")) (exists ((i Int)) (and (<= 0 i) (< i "+ln+") (= ("+perm+" i) m)))) :pattern ((select "+old+" (ix "+off+" m)))))",
		))
		e.setHeapIn(st, hn, hs, store(H0, ref, narr))
		e.logStore(hn, ref)
		e.w.Trusted["slices.SortFunc returns a sorted permutation (comparator specified by a closure/function contract)"] = true
		return Val{S: "Tuple", GoT: r}, true
	}
	// slices.BinarySearchFunc with a specified comparator
	H["slices.BinarySearchFunc"] = func(e *Engine, fc *fnCtx, st *State, c *ssa.CallCommon, a []Val, r types.Type) (Val, bool) {
		sl, ok := c.Args[0].Type().Underlying().(*types.Slice)
		cmpSpec := e.comparatorSpec(fc, st, c.Args[2], a[2])
		if !ok || cmpSpec == nil {
			return Val{}, false
		}
		hn, hs := e.sliceHeapName(sl.Elem())
		es := e.sortOf(sl.Elem())
		x := a[0].T
		ref, off, ln := "(s_ref "+x+")", "(s_off "+x+")", "(s_len "+x+")"
		arr := e.sc.define("bs_arr", "(Array Int "+es+")", sel(e.heapIn(st, hn, hs), ref))
		at := func(i string) Val { return Val{T: sel(arr, "(ix "+off+" "+i+")"), S: es, GoT: sl.Elem()} }
		key := func(i string) string { return cmpSpec([]Val{at(i), a[1]}).T }
		// precondition: the slice is partitioned by the comparator (once >= 0, never < 0 again)
		e.addObl(fc.fn, "pre-of", "slices.BinarySearchFunc[sorted-for-key]", c.Pos(), st.Reach,
			"(forall ((i Int) (j Int)) (! (=> (and (<= 0 i) (< i j) (< j "+ln+")) (not (and (>= "+key("i")+" 0) (< "+key("j")+" 0)))) :pattern ((select "+arr+" (ix "+off+" i)) (select "+arr+" (ix "+off+" j)))))")
		idx := e.freshVal("bs_idx", tInt)
		found := e.sc.define("bs_found", "Bool", and("(< "+idx.T+" "+ln+")", "(= "+key(idx.T)+" 0)"))
		e.assume(st, and("(<= 0 "+idx.T+")", "(<= "+idx.T+" "+ln+")",
			"(forall ((i Int)) (! (=> (and (<= 0 i) (< i "+idx.T+")) (< "+key("i")+" 0)) :pattern ((select "+arr+" (ix "+off+" i)))))",
			"(forall ((i Int)) (! (=> (and (<= "+idx.T+" i) (< i "+ln+")) (>= "+key("i")+" 0)) :pattern ((select "+arr+" (ix "+off+" i)))))"))
		e.w.Trusted["slices.BinarySearchFunc returns the partition point of a slice partitioned by the comparator"] = true
		return tuple(idx, Val{T: found, S: "Bool"}), true
	}
	// Decoders as trusted stream contracts: NewDecoder(r).Decode(&v) stores decoded_T(r), a deterministic
	// (uninterpreted) function of the reader, into v. Specifications refer to it as decoded(r, T).
	newDecoder := func(e *Engine, fc *fnCtx, st *State, c *ssa.CallCommon, a []Val, r types.Type) (Val, bool) {
		ref := e.newRef(st, "decoder")
		e.sc.declareFun("decsrc", []string{"Int"}, "Int")
		e.assume(st, "(= (decsrc "+ref+") "+a[0].T+")")
		return Val{T: ref, S: "Int", GoT: r}, true
	}
	decode := func(e *Engine, fc *fnCtx, st *State, c *ssa.CallCommon, a []Val, r types.Type) (Val, bool) {
		res := e.freshVal("decoderr", r)
		mi, ok := c.Args[1].(*ssa.MakeInterface)
		if !ok {
			return Val{}, false
		}
		pt, ok := mi.X.Type().Underlying().(*types.Pointer)
		if !ok {
			return Val{}, false
		}
		target := e.val(fc, mi.X)
		e.sc.declareFun("decsrc", []string{"Int"}, "Int")
		v := e.decodedTerm("(decsrc "+a[0].T+")", pt.Elem())
		var addr *Addr
		if target.Addr != nil {
			addr = target.Addr
		} else {
			addr = &Addr{Kind: aPtr, Ref: target.T, ElemT: pt.Elem()}
		}
		e.storeTo(st, addr, v)
		if _, isPtr := pt.Elem().Underlying().(*types.Pointer); isPtr && (strings.Contains(c.StaticCallee().String(), "BurntSushi/toml") || strings.Contains(c.StaticCallee().String(), "encoding/xml")) {
			// BurntSushi/toml allocates the target when it is a nil pointer (a TOML document is always a table);
			// encoding/xml allocates it when it finds the root element and reports io.EOF otherwise
			errT := res
			if len(res.Tuple) > 0 {
				errT = res.Tuple[len(res.Tuple)-1]
			}
			e.assume(st, implies("(= "+errT.T+" 0)", and("(> "+v.T+" 0)", "(<= "+v.T+" "+e.allocCounter(st)+")")))
			e.w.Trusted["toml/xml Decoder.Decode allocates a nil pointer target on success (json and yaml do not: null / ~)"] = true
		}
		e.w.Trusted["decoder as a deterministic function of its reader (stream contract): "+c.StaticCallee().String()] = true
		return res, true
	}
	for _, n := range []string{"encoding/json.NewDecoder", "github.com/BurntSushi/toml.NewDecoder", "gopkg.in/yaml.v3.NewDecoder", "encoding/xml.NewDecoder"} {
		H[n] = newDecoder
	}
	for _, n := range []string{"(*encoding/json.Decoder).Decode", "(*github.com/BurntSushi/toml.Decoder).Decode", "(*gopkg.in/yaml.v3.Decoder).Decode", "(*encoding/xml.Decoder).Decode"} {
		H[n] = decode
	}
	openFn := func(e *Engine, fc *fnCtx, st *State, c *ssa.CallCommon, a []Val, r types.Type) (Val, bool) {
		v := e.freshVal("opened", r)
		if len(v.Tuple) == 2 {
			ref := e.newRef(st, "file")
			e.assume(st, and(implies("(= "+v.Tuple[1].T+" 0)", "(= "+v.Tuple[0].T+" "+ref+")"), implies("(not (= "+v.Tuple[1].T+" 0))", "(= "+v.Tuple[0].T+" 0)")))
		}
		return v, true
	}
	H["os.OpenFile"] = openFn
	H["os.Open"] = openFn
	H["os.Create"] = openFn
	// io.LimitReader / io.Copy: at most n bytes are copied from a reader limited to n
	H["io.LimitReader"] = func(e *Engine, fc *fnCtx, st *State, c *ssa.CallCommon, a []Val, r types.Type) (Val, bool) {
		e.sc.declareFun("limitrd", []string{"Int", "Int"}, "Int")
		e.sc.declareFun("limitof", []string{"Int"}, "Int")
		e.sc.declareFun("islimitrd", []string{"Int"}, "Bool")
		t := "(limitrd " + a[0].T + " " + a[1].T + ")"
		v := Val{T: e.sc.define("lr", "Int", t), S: "Int", GoT: r}
		e.assume(st, and("(islimitrd "+v.T+")", "(= (limitof "+v.T+") "+a[1].T+")", "(not (= "+v.T+" 0))"))
		return v, true
	}
	H["io.Copy"] = func(e *Engine, fc *fnCtx, st *State, c *ssa.CallCommon, a []Val, r types.Type) (Val, bool) {
		e.sc.declareFun("limitof", []string{"Int"}, "Int")
		e.sc.declareFun("islimitrd", []string{"Int"}, "Bool")
		n := e.freshVal("copied", types.Typ[types.Int64])
		err := e.freshVal("copyerr", types.Universe.Lookup("error").Type())
		e.assume(st, and("(>= "+n.T+" 0)", implies("(islimitrd "+a[1].T+")", "(<= "+n.T+" (imax 0 (limitof "+a[1].T+")))")))
		e.setHeapIn(st, "GH_io.lastCopied", "Int", n.T)
		return tuple(n, err), true
	}
	H["(*archive/tar.Reader).Next"] = func(e *Engine, fc *fnCtx, st *State, c *ssa.CallCommon, a []Val, r types.Type) (Val, bool) {
		v := e.freshVal("tarnext", r)
		if len(v.Tuple) == 2 {
			e.assume(st, and(implies("(= "+v.Tuple[1].T+" 0)", "(> "+v.Tuple[0].T+" 0)"), "(<= "+v.Tuple[0].T+" "+e.allocCounter(st)+")"))
		}
		return v, true
	}
	H["(*archive/tar.Header).FileInfo"] = func(e *Engine, fc *fnCtx, st *State, c *ssa.CallCommon, a []Val, r types.Type) (Val, bool) {
		e.sc.declareFun("tarFileInfo", []string{"Int"}, "Int")
		v := Val{T: "(tarFileInfo " + a[0].T + ")", S: "Int", GoT: r}
		e.assume(st, "(not (= "+v.T+" 0))")
		return v, true
	}
	pureSpecMethods["(*archive/tar.Header).FileInfo"] = func(e *Engine, env *SpecEnv, a []Val) Val {
		e.sc.declareFun("tarFileInfo", []string{"Int"}, "Int")
		obj, _, _ := types.LookupFieldOrMethod(a[0].GoT, true, nil, "FileInfo")
		var rt types.Type
		if f, ok := obj.(*types.Func); ok {
			rt = f.Type().(*types.Signature).Results().At(0).Type()
		}
		return Val{T: "(tarFileInfo " + a[0].T + ")", S: "Int", GoT: rt}
	}
	// path algebra: Clean / Join / Dir are uninterpreted functions shared with the specification language
	uf1 := func(name string) stdHandler {
		return func(e *Engine, fc *fnCtx, st *State, c *ssa.CallCommon, a []Val, r types.Type) (Val, bool) {
			e.sc.declareFun(name, []string{"String"}, "String")
			return Val{T: e.sc.define("p", "String", "("+name+" "+a[0].T+")"), S: "String", GoT: tString}, true
		}
	}
	for _, n := range []string{"path.Clean", "path/filepath.Clean"} {
		H[n] = uf1("pathClean")
	}
	for _, n := range []string{"path.Dir", "path/filepath.Dir"} {
		H[n] = uf1("pathDir")
	}
	joinFn := func(e *Engine, fc *fnCtx, st *State, c *ssa.CallCommon, a []Val, r types.Type) (Val, bool) {
		elems, ok := e.varargsElems(st, c, 0, a[0])
		if !ok || len(elems) == 0 || len(elems) > 4 {
			return e.freshVal("joined", tString), true
		}
		e.sc.declareFun("pathJoin", []string{"String", "String"}, "String")
		cur := elems[0]
		if len(elems) == 1 {
			e.sc.declareFun("pathClean", []string{"String"}, "String")
			cur = "(pathClean " + cur + ")"
		}
		for _, x := range elems[1:] {
			cur = "(pathJoin " + cur + " " + x + ")"
		}
		return Val{T: e.sc.define("p", "String", cur), S: "String", GoT: tString}, true
	}
	// path.Split: dir + file == p, file has no slash, dir is empty or ends with a slash (this determines the pair)
	splitFn := func(e *Engine, fc *fnCtx, st *State, c *ssa.CallCommon, a []Val, r types.Type) (Val, bool) {
		d, f := e.pathSplitTerms(a[0].T)
		return tuple(Val{T: d, S: "String", GoT: tString}, Val{T: f, S: "String", GoT: tString}), true
	}
	H["path.Split"] = splitFn
	H["path/filepath.Split"] = splitFn
	H["path.Join"] = joinFn
	H["path/filepath.Join"] = joinFn
	isAbs := func(e *Engine, fc *fnCtx, st *State, c *ssa.CallCommon, a []Val, r types.Type) (Val, bool) {
		return Val{T: "(str.prefixof \"/\" " + a[0].T + ")", S: "Bool", GoT: tBool}, true
	}
	H["path.IsAbs"] = isAbs
	H["path/filepath.IsAbs"] = isAbs
	H["(github.com/opencontainers/go-digest.Digest).String"] = func(e *Engine, fc *fnCtx, st *State, c *ssa.CallCommon, a []Val, r types.Type) (Val, bool) {
		// func (d Digest) String() string { return string(d) }
		v := a[0]
		v.GoT = tString
		return v, true
	}
	H["path/filepath.ToSlash"] = func(e *Engine, fc *fnCtx, st *State, c *ssa.CallCommon, a []Val, r types.Type) (Val, bool) {
		e.note("filepath.ToSlash is the identity (unix path separator assumed)")
		return a[0], true
	}
	baseFn := func(e *Engine, fc *fnCtx, st *State, c *ssa.CallCommon, a []Val, r types.Type) (Val, bool) {
		// path.Base is a function of its argument; the result is never empty
		e.sc.declareFun("pathBase", []string{"String"}, "String")
		v := Val{T: e.sc.define("base", "String", "(pathBase "+a[0].T+")"), S: "String", GoT: tString}
		e.assume(st, "(> (str.len "+v.T+") 0)")
		return v, true
	}
	H["path/filepath.Base"] = baseFn
	H["path.Base"] = baseFn
	extFn := func(e *Engine, fc *fnCtx, st *State, c *ssa.CallCommon, a []Val, r types.Type) (Val, bool) {
		v := e.freshVal("ext", tString)
		e.assume(st, and("(str.suffixof "+v.T+" "+a[0].T+")", or("(= "+v.T+" \"\")", "(str.prefixof \".\" "+v.T+")")))
		return v, true
	}
	H["path/filepath.Ext"] = extFn
	H["path.Ext"] = extFn
	asciiClass := func(lo1, hi1 string, extra ...string) stdHandler {
		return func(e *Engine, fc *fnCtx, st *State, c *ssa.CallCommon, a []Val, r types.Type) (Val, bool) {
			v := e.freshVal("cls", tBool)
			in := "(and (>= " + a[0].T + " " + lo1 + ") (<= " + a[0].T + " " + hi1 + "))"
			for i := 0; i+1 < len(extra); i += 2 {
				in = "(or " + in + " (and (>= " + a[0].T + " " + extra[i] + ") (<= " + a[0].T + " " + extra[i+1] + ")))"
			}
			e.assume(st, implies("(< "+a[0].T+" 128)", eq(v.T, in)))
			return v, true
		}
	}
	H["unicode.IsDigit"] = asciiClass("48", "57")
	H["unicode.IsNumber"] = asciiClass("48", "57")
	H["unicode.IsLetter"] = asciiClass("65", "90", "97", "122")
	H["unicode/utf8.RuneCountInString"] = func(e *Engine, fc *fnCtx, st *State, c *ssa.CallCommon, a []Val, r types.Type) (Val, bool) {
		v := e.freshVal("runes", tInt)
		e.assume(st, and("(>= "+v.T+" 0)", "(<= "+v.T+" (str.len "+a[0].T+"))", eq("(= "+v.T+" 0)", "(= (str.len "+a[0].T+") 0)")))
		return v, true
	}
	// regexp
	H["regexp.MustCompile"] = func(e *Engine, fc *fnCtx, st *State, c *ssa.CallCommon, a []Val, r types.Type) (Val, bool) {
		v := e.freshVal("re", r)
		e.assume(st, "(> "+v.T+" 0)")
		return v, true
	}
	H["(*regexp.Regexp).MatchString"] = func(e *Engine, fc *fnCtx, st *State, c *ssa.CallCommon, a []Val, r types.Type) (Val, bool) {
		e.sc.declareFun("reMatch", []string{"Int", "String"}, "Bool")
		uf := "(reMatch " + a[0].T + " " + a[1].T + ")"
		if re, ok := e.regexOf(c.Args[0]); ok {
			if smt, ok := regexMatchSMT(re.String()); ok {
				e.assume(st, eq(uf, "(str.in_re "+a[1].T+" "+smt+")"))
				e.w.Trusted["regexp literal translated to SMT-LIB regular expression (bytes; ASCII classes): "+re.String()] = true
			}
		}
		return boolRes(uf)
	}
	pureSpecMethods["(*regexp.Regexp).MatchString"] = func(e *Engine, env *SpecEnv, a []Val) Val {
		e.sc.declareFun("reMatch", []string{"Int", "String"}, "Bool")
		return boolVal("(reMatch " + a[0].T + " " + a[1].T + ")")
	}
	submatch := func(e *Engine, fc *fnCtx, st *State, c *ssa.CallCommon, a []Val, r types.Type) (Val, bool) {
		v := e.newStringSlice(st, "submatch")
		elem := func(j string) string { return e.sliceElem(st, v, tString, j) }
		facts := []string{"(forall ((j Int)) (! (=> (and (<= 0 j) (< j (s_len " + v.T + "))) (str.contains " + a[1].T + " " + elem("j") + ")) :pattern (" + elem("j") + ")))"}
		if re, ok := e.regexOf(c.Args[0]); ok {
			facts = append(facts, fmt.Sprintf("(= (s_len %s) %d)", v.T, re.NumSubexp()+1))
		} else {
			facts = append(facts, "(>= (s_len "+v.T+") 1)")
		}
		isNil := e.sc.declareConst("nomatch", "Bool")
		e.sc.assert(implies(st.Reach, implies(not(isNil), and(facts...))))
		if re, ok := e.regexOf(c.Args[0]); ok {
			if smt, ok := regexMatchSMT(re.String()); ok {
				e.assume(st, eq(isNil, not("(str.in_re "+a[1].T+" "+smt+")")))
			}
		}
		res := Val{T: e.sc.define("sm", "Slice", ite(isNil, "(mk_slice 0 0 0 0)", v.T)), S: "Slice", GoT: r}
		return res, true
	}
	H["(*regexp.Regexp).FindStringSubmatch"] = submatch
	H["(*regexp.Regexp).FindString"] = func(e *Engine, fc *fnCtx, st *State, c *ssa.CallCommon, a []Val, r types.Type) (Val, bool) {
		v := e.freshVal("found", tString)
		e.assume(st, "(str.contains "+a[1].T+" "+v.T+")")
		return v, true
	}
	H["(*regexp.Regexp).SubexpIndex"] = func(e *Engine, fc *fnCtx, st *State, c *ssa.CallCommon, a []Val, r types.Type) (Val, bool) {
		if re, ok := e.regexOf(c.Args[0]); ok {
			if name, ok := constString(c.Args[1]); ok {
				return Val{T: intLit(int64(re.SubexpIndex(name))), S: "Int", GoT: tInt}, true
			}
			v := e.freshVal("subexp", tInt)
			e.assume(st, and("(>= "+v.T+" (- 1))", fmt.Sprintf("(<= %s %d)", v.T, re.NumSubexp())))
			return v, true
		}
		v := e.freshVal("subexp", tInt)
		e.assume(st, "(>= "+v.T+" (- 1))")
		return v, true
	}
	// math/big: value of a big.Int lives in the ghost heap BIGVAL
	bigval := func(e *Engine, st *State, ref string) string {
		return sel(e.heapIn(st, "BIGVAL", "(Array Int Int)"), ref)
	}
	H["(*math/big.Int).SetString"] = func(e *Engine, fc *fnCtx, st *State, c *ssa.CallCommon, a []Val, r types.Type) (Val, bool) {
		e.addObl(fc.fn, "nilderef", "big.Int.SetString receiver", c.Pos(), st.Reach, "(not (= "+a[0].T+" 0))")
		ok := e.sc.declareConst("bigok", "Bool")
		nv := e.sc.declareConst("bigv", "Int")
		e.sc.declareFun("decval", []string{"String"}, "Int")
		base10 := eq(a[2].T, "10")
		e.assume(st, and(implies(base10, eq(ok, "(str.in_re "+a[1].T+" "+reDecimal+")")),
			implies(and(base10, ok), "(= "+nv+" (decval "+a[1].T+"))"),
			// redundant consequence of the line above, stated to spare the string solver a regular-expression inclusion proof
			implies(and(base10, "(str.in_re "+a[1].T+" (re.* (re.range \"0\" \"9\")))", "(not (= "+a[1].T+" \"\"))"), ok),
			implies(and(base10, "(str.in_re "+a[1].T+" (re.+ (re.range \"0\" \"9\")))"), "(= (decval "+a[1].T+") (str.to_int "+a[1].T+"))")))
		h := e.heapIn(st, "BIGVAL", "(Array Int Int)")
		e.setHeapIn(st, "BIGVAL", "(Array Int Int)", store(h, a[0].T, nv))
		e.logStore("BIGVAL", a[0].T)
		return tuple(Val{T: ite(ok, a[0].T, "0"), S: "Int"}, Val{T: ok, S: "Bool"}), true
	}
	H["(*math/big.Int).Cmp"] = func(e *Engine, fc *fnCtx, st *State, c *ssa.CallCommon, a []Val, r types.Type) (Val, bool) {
		e.addObl(fc.fn, "nilderef", "big.Int.Cmp "+e.srcText(c.Pos(), "call"), c.Pos(), st.Reach, and("(not (= "+a[0].T+" 0))", "(not (= "+a[1].T+" 0))"))
		return intRes(e, "(sgn (- "+bigval(e, st, a[0].T)+" "+bigval(e, st, a[1].T)+"))")
	}
	H["(*math/big.Int).Sign"] = func(e *Engine, fc *fnCtx, st *State, c *ssa.CallCommon, a []Val, r types.Type) (Val, bool) {
		e.addObl(fc.fn, "nilderef", "big.Int.Sign receiver", c.Pos(), st.Reach, "(not (= "+a[0].T+" 0))")
		return intRes(e, "(sgn "+bigval(e, st, a[0].T)+")")
	}
	H["math/big.NewInt"] = func(e *Engine, fc *fnCtx, st *State, c *ssa.CallCommon, a []Val, r types.Type) (Val, bool) {
		ref := e.newRef(st, "bigint")
		h := e.heapIn(st, "BIGVAL", "(Array Int Int)")
		e.setHeapIn(st, "BIGVAL", "(Array Int Int)", store(h, ref, a[0].T))
		return Val{T: ref, S: "Int", GoT: r}, true
	}
	// io/fs.FileMode methods
	modeFns := map[string]func(m string) (string, string){
		"IsDir":     func(m string) (string, string) { return "(not (= (bitand " + m + " 2147483648) 0))", "Bool" },
		"IsRegular": func(m string) (string, string) { return "(= (bitand " + m + " 2401763328) 0)", "Bool" },
		"Type":      func(m string) (string, string) { return "(bitand " + m + " 2401763328)", "Int" },
		"Perm":      func(m string) (string, string) { return "(bitand " + m + " 511)", "Int" },
	}
	for name, f := range modeFns {
		f := f
		full := "(io/fs.FileMode)." + name
		H[full] = func(e *Engine, fc *fnCtx, st *State, c *ssa.CallCommon, a []Val, r types.Type) (Val, bool) {
			t, srt := f(a[0].T)
			return Val{T: e.sc.define("mode", srt, t), S: srt, GoT: r}, true
		}
		pureSpecMethods[full] = func(e *Engine, env *SpecEnv, a []Val) Val {
			t, srt := f(a[0].T)
			v := Val{T: t, S: srt, GoT: tBool}
			if srt == "Int" {
				v.GoT = a[0].GoT
			}
			return v
		}
	}
	// cmp.Compare / cmp.Or
	H["cmp.Compare"] = func(e *Engine, fc *fnCtx, st *State, c *ssa.CallCommon, a []Val, r types.Type) (Val, bool) {
		if a[0].S == "String" {
			return intRes(e, ite("(str.< "+a[0].T+" "+a[1].T+")", "(- 1)", ite(eq(a[0].T, a[1].T), "0", "1")))
		}
		if a[0].S == "Int" {
			return intRes(e, "(sgn (- "+a[0].T+" "+a[1].T+"))")
		}
		return Val{}, false
	}
	H["cmp.Or"] = func(e *Engine, fc *fnCtx, st *State, c *ssa.CallCommon, a []Val, r types.Type) (Val, bool) {
		sl, ok := c.Args[0].Type().Underlying().(*types.Slice)
		if !ok {
			return Val{}, false
		}
		ssl, ok := c.Args[0].(*ssa.Slice)
		if !ok {
			return Val{}, false
		}
		al, ok := ssl.X.(*ssa.Alloc)
		if !ok {
			return Val{}, false
		}
		arr := deref(al.Type()).Underlying().(*types.Array)
		zero := e.zero(sl.Elem())
		res := zero
		for j := arr.Len() - 1; j >= 0; j-- {
			el := e.sliceElem(st, a[0], sl.Elem(), fmt.Sprint(j))
			res = ite(not(eq(el, zero)), el, res)
		}
		return Val{T: e.sc.define("cmpor", e.sortOf(sl.Elem()), res), S: e.sortOf(sl.Elem()), GoT: r}, true
	}
	// fmt.Sprintf with a constant format: an uninterpreted function of the format and the (boxed) argument values
	H["fmt.Sprintf"] = func(e *Engine, fc *fnCtx, st *State, c *ssa.CallCommon, a []Val, r types.Type) (Val, bool) {
		format, okf := constString(c.Args[0])
		elems, oke := e.varargsElems(st, c, 1, a[1])
		if !okf || !oke || len(elems) == 0 || len(elems) > 4 {
			return e.freshVal("sprintf", r), true
		}
		// exact when every verb is %s / %v and every argument is statically a string: plain concatenation
		if ts := varargsStaticTypes(c, 1); len(ts) == len(elems) {
			allStr := true
			for _, t := range ts {
				if t == nil || !isStringT(t) {
					allStr = false
				}
			}
			if allStr {
				var parts []string
				k, okFmt, lit := 0, true, ""
				for i := 0; i < len(format) && okFmt; i++ {
					if format[i] != '%' {
						lit += string(format[i])
						continue
					}
					if i+1 >= len(format) {
						okFmt = false
						break
					}
					i++
					switch format[i] {
					case '%':
						lit += "%"
					case 's', 'v':
						if k >= len(elems) {
							okFmt = false
							break
						}
						if lit != "" {
							parts = append(parts, smtString(lit))
							lit = ""
						}
						_, ub := e.boxFns(tString)
						parts = append(parts, "("+ub+" "+elems[k]+")")
						k++
					default:
						okFmt = false
					}
				}
				if okFmt && k == len(elems) {
					if lit != "" {
						parts = append(parts, smtString(lit))
					}
					t := parts[0]
					if len(parts) > 1 {
						t = "(str.++ " + strings.Join(parts, " ") + ")"
					}
					return Val{T: e.sc.define("spf", "String", t), S: "String", GoT: r}, true
				}
			}
		}
		f := fmt.Sprintf("sprintf_%d", len(elems))
		sorts := []string{"String"}
		for range elems {
			sorts = append(sorts, "Int")
		}
		e.sc.declareFun(f, sorts, "String")
		return Val{T: e.sc.define("spf", "String", app(f, append([]string{smtString(format)}, elems...)...)), S: "String", GoT: r}, true
	}
	// reflect.DeepEqual: an uninterpreted equivalence relation on the boxed operands
	H["reflect.DeepEqual"] = func(e *Engine, fc *fnCtx, st *State, c *ssa.CallCommon, a []Val, r types.Type) (Val, bool) {
		return boolRes("(deepEqual " + a[0].T + " " + a[1].T + ")")
	}
	pureSpecFuncs["reflect.DeepEqual"] = func(e *Engine, env *SpecEnv, a []Val) Val {
		var ts []string
		for _, v := range a {
			if v.GoT != nil && !types.IsInterface(v.GoT) {
				bx, _ := e.boxFns(v.GoT)
				ts = append(ts, "("+bx+" "+v.T+")")
			} else {
				ts = append(ts, v.T)
			}
		}
		return boolVal("(deepEqual " + ts[0] + " " + ts[1] + ")")
	}
	// slices
	H["slices.Contains"] = func(e *Engine, fc *fnCtx, st *State, c *ssa.CallCommon, a []Val, r types.Type) (Val, bool) {
		sl, ok := c.Args[0].Type().Underlying().(*types.Slice)
		if !ok {
			return Val{}, false
		}
		return boolRes(e.sliceHasTerm(st, a[0], sl.Elem(), a[1].T))
	}
}

func (e *Engine) sliceHasTerm(st *State, s Val, elem types.Type, v string) string {
	q := "q_j!" + fmt.Sprint(e.sc.n)
	e.sc.n++
	return "(exists ((" + q + " Int)) (! (and (<= 0 " + q + ") (< " + q + " (s_len " + s.T + ")) (= " + e.sliceElem(st, s, elem, q) + " " + v + ")) :pattern ((ix (s_off " + s.T + ") " + q + "))))"
}

func parseVerbs(format string) []byte {
	var out []byte
	for i := 0; i < len(format); i++ {
		if format[i] != '%' {
			continue
		}
		i++
		for i < len(format) && strings.ContainsRune("+-# 0123456789.", rune(format[i])) {
			i++
		}
		if i < len(format) && format[i] != '%' {
			out = append(out, format[i])
		}
	}
	return out
}

// builtinISpec: standard-library interface methods with a fixed meaning.
func (e *Engine) builtinISpec(fc *fnCtx, st *State, key string, c *ssa.CallCommon, all []Val, resT types.Type) (Val, bool) {
	pureIfaces := []string{"io/fs.DirEntry.", "io/fs.FileInfo.", "error.Error", "fmt.Stringer.String", "io/fs.FileMode."}
	for _, p := range pureIfaces {
		if strings.HasPrefix(key, p) || strings.HasSuffix(key, ".?.Error") {
			e.w.Trusted["pure-interface-method:"+key] = true
			sig := c.Method.Type().(*types.Signature)
			if sig.Results().Len() == 1 {
				v := e.pureMethodTerm(key, all, sig)
				e.rangeFactsTerm(st, v)
				return v, true
			}
			return e.freshVal("im", resT), true
		}
	}
	switch key {
	case "io.Closer.Close", "io.Writer.Write", "io.StringWriter.WriteString", "io/fs.File.Close", "io/fs.File.Stat", "io.ReaderAt.ReadAt", "io.Seeker.Seek",
		"context.Context.Done", "context.Context.Value", "context.Context.Deadline", "io/fs.ReadDirFile.ReadDir", "io/fs.FS.Open", "io/fs.StatFS.Stat", "io/fs.ReadDirFS.ReadDir":
		e.w.Trusted["no-heap-effect-interface-method:"+key] = true
		v := e.freshVal("im_"+c.Method.Name(), resT)
		return v, true
	case "io.Reader.Read":
		e.w.Trusted["io.Reader.Read: only the buffer is written"] = true
		if len(all) > 1 {
			e.shallowHavoc(st, all[1], c.Args[0].Type())
		}
		v := e.freshVal("read", resT)
		if len(v.Tuple) == 2 {
			e.assume(st, and("(>= "+v.Tuple[0].T+" 0)", "(<= "+v.Tuple[0].T+" (s_len "+all[1].T+"))"))
		}
		return v, true
	case "context.Context.Err":
		e.w.Trusted["context.Context.Err: no heap effect"] = true
		return e.freshVal("ctxerr", resT), true
	}
	return Val{}, false
}

func (e *Engine) rangeFactsTerm(st *State, v Val) {
	if v.GoT != nil {
		e.rangeFacts(st.Reach, v, v.GoT)
	}
}

// decodedTerm: the value a decoder produces for target type t from source src.
func (e *Engine) decodedTerm(src string, t types.Type) Val {
	f := "decoded_" + typeKey(t)
	srt := e.sortOf(t)
	e.sc.declareFun(f, []string{"Int"}, srt)
	return Val{T: "(" + f + " " + src + ")", S: srt, GoT: t}
}

var pureExternal = map[string]bool{
	"github.com/tidwall/gjson.GetBytes":        true,
	"github.com/tidwall/gjson.Escape":          true,
	"(github.com/tidwall/gjson.Result).Exists": true,
	"(github.com/tidwall/gjson.Result).String": true,
	"github.com/tidwall/sjson.SetBytes":        true,
	"(deps.dev/util/semver.System).Parse":              true,
	"(deps.dev/util/semver.System).ParseConstraint":    true,
	"(deps.dev/util/semver.System).Difference":         true,
	"(*deps.dev/util/semver.Constraint).MatchVersion":  true,
	"(*deps.dev/util/semver.Version).IsPrerelease":     true,
	"(deps.dev/util/semver.System).Compare":  true,
	"(deps.dev/util/resolve.System).Semver":  true,
	"(*deps.dev/util/semver.System).Compare": true,
	"(*deps.dev/util/semver.Version).Compare":      true,
	"(net/textproto.MIMEHeader).Get":               true,
	"(*deps.dev/util/semver.Version).String":       true,
	"(*deps.dev/util/semver.Version).Difference":   true,
	"(*deps.dev/util/semver.Constraint).IsSimple":  true,
}

// externalNonNil: arguments (receiver = 0) that the external function dereferences unconditionally; a call with nil
// there panics inside the dependency. Read off the dependency's source (deps.dev/util/semver: Version.String returns
// v.str; Version.Difference reads v.sys and, for Maven, both versions' ext; Constraint.IsSimple returns c.simple;
// Constraint.MatchVersion calls c.match which reads c.set).
var externalNonNil = map[string][]int{
	"(*deps.dev/util/semver.Version).String":          {0},
	"(*deps.dev/util/semver.Version).Difference":      {0, 1},
	"(*deps.dev/util/semver.Constraint).IsSimple":     {0},
	"(*deps.dev/util/semver.Constraint).MatchVersion": {0},
}

func (e *Engine) pureExternalTerm(name string, a []Val, r types.Type) Val {
	f := "ext_" + sanitize(name)
	var sorts, ts []string
	for _, v := range a {
		sorts = append(sorts, v.S)
		ts = append(ts, v.T)
	}
	if tup, ok := r.(*types.Tuple); ok && tup.Len() != 1 {
		out := Val{S: "Tuple", GoT: r}
		for i := 0; i < tup.Len(); i++ {
			fi := fmt.Sprintf("%s_%d", f, i)
			rs := e.sortOf(tup.At(i).Type())
			e.sc.declareFun(fi, sorts, rs)
			out.Tuple = append(out.Tuple, Val{T: app(fi, ts...), S: rs, GoT: tup.At(i).Type()})
		}
		e.w.Trusted["external function is a deterministic function of its arguments: "+name] = true
		return out
	}
	if tup, ok := r.(*types.Tuple); ok && tup.Len() == 1 {
		r = tup.At(0).Type()
	}
	rs := e.sortOf(r)
	e.sc.declareFun(f, sorts, rs)
	e.w.Trusted["external function is a deterministic function of its arguments: "+name] = true
	return Val{T: app(f, ts...), S: rs, GoT: r}
}

func pureExternalResult(env *SpecEnv, a []Val, name string) types.Type {
	i := strings.LastIndex(name, ").")
	if i < 0 || len(a) == 0 || a[0].GoT == nil {
		return tInt
	}
	obj, _, _ := types.LookupFieldOrMethod(a[0].GoT, true, nil, name[i+2:])
	if f, ok := obj.(*types.Func); ok {
		sig := f.Type().(*types.Signature)
		if sig.Results().Len() == 1 {
			return sig.Results().At(0).Type()
		}
		return sig.Results()
	}
	return tInt
}

// comparatorSpec returns a function building the specification term of a comparator argument, when it has one:
// a closure with a verified `closure[k]` spec, or a function with `<name>_lt` / `<name>_eq` spec functions.
func (e *Engine) comparatorSpec(fc *fnCtx, st *State, arg ssa.Value, v Val) func(args []Val) Val {
	if v.Clo != nil && v.Clo.Spec != nil {
		clo := v.Clo
		return func(args []Val) Val { return e.applyClosureSpec(clo, args) }
	}
	// a named function f with spec functions f_lt and f_eq (and a contract tying its result to them, proved where f is
	// verified): cmp(a, b) = f_lt(a, b) ? -1 : (f_eq(a, b) ? 0 : 1)
	var fn *ssa.Function
	switch x := arg.(type) {
	case *ssa.Function:
		fn = x
	case *ssa.MakeClosure:
		if len(x.Bindings) == 0 {
			fn, _ = x.Fn.(*ssa.Function)
		}
	case *ssa.ChangeType:
		fn, _ = x.X.(*ssa.Function)
	}
	if fn == nil || fn.Pkg == nil {
		return nil
	}
	if _, has := e.w.Contracts[fn]; !has {
		return nil
	}
	pkgPath := fn.Pkg.Pkg.Path()
	lt, ok1 := e.w.SpecFns[pkgPath+"."+fn.Name()+"_lt"]
	eqf, ok2 := e.w.SpecFns[pkgPath+"."+fn.Name()+"_eq"]
	if !ok1 || !ok2 {
		return nil
	}
	return func(args []Val) Val {
		env := &SpecEnv{e: e, vars: map[string]Val{}, lets: map[string]SExpr{}, st: st, old: fc.entry, pkg: lt.Pkg, pos: lt.Pos, entryVals: map[string]Val{}, fc: fc}
		var sargs []SExpr
		for i, a := range args {
			n := fmt.Sprintf("$cmp%d", i)
			env.vars[n] = a
			sargs = append(sargs, SIdent{n})
		}
		l := e.applySpecFn(env, lt, sargs)
		q := e.applySpecFn(env, eqf, sargs)
		return Val{T: ite(l.T, "(- 1)", ite(q.T, "0", "1")), S: "Int", GoT: tInt}
	}
}

// pathSplitTerms / pathSplitFacts: the two results of path.Split as uninterpreted functions of the argument, with the
// facts that characterise them.
func (e *Engine) pathSplitTerms(p string) (string, string) {
	e.sc.declareFun("pathSplitDir", []string{"String"}, "String")
	e.sc.declareFun("pathSplitFile", []string{"String"}, "String")
	if !e.sc.declared["pathSplitAx"] {
		e.sc.declared["pathSplitAx"] = true
		e.sc.assert("(forall ((p String)) (! " + pathSplitFacts("p", "(pathSplitDir p)", "(pathSplitFile p)") + " :pattern ((pathSplitDir p)) :pattern ((pathSplitFile p))))")
		e.w.Trusted["path.Split: dir + file == p, file contains no slash, dir is empty or ends with a slash"] = true
	}
	return "(pathSplitDir " + p + ")", "(pathSplitFile " + p + ")"
}

func pathSplitFacts(p, d, f string) string {
	return and("(= "+p+" (str.++ "+d+" "+f+"))", "(not (str.contains "+f+" \"/\"))", or("(= "+d+" \"\")", "(str.suffixof \"/\" "+d+")"))
}

// sideEffectFree: the function has no stores, map updates, sends, goroutines, defers, panics or calls (other than the
// len/cap builtins): applying it any number of times leaves memory unchanged.
func sideEffectFree(fn *ssa.Function) bool {
	if fn == nil || len(fn.Blocks) == 0 {
		return false
	}
	for _, b := range fn.Blocks {
		for _, ins := range b.Instrs {
			switch x := ins.(type) {
			case *ssa.Store:
				// a store into the function's own (non-escaping) local variable is not an effect
				root := x.Addr
				for {
					switch r := root.(type) {
					case *ssa.FieldAddr:
						root = r.X
						continue
					case *ssa.IndexAddr:
						root = r.X
						continue
					}
					break
				}
				if al, ok := root.(*ssa.Alloc); ok && !al.Heap {
					continue
				}
				return false
			case *ssa.MapUpdate, *ssa.Send, *ssa.Go, *ssa.Defer, *ssa.Panic:
				return false
			case *ssa.Call:
				if bi, ok := x.Call.Value.(*ssa.Builtin); ok && (bi.Name() == "len" || bi.Name() == "cap" || bi.Name() == "ssa:deferstack") {
					continue
				}
				return false
			}
		}
	}
	return true
}
