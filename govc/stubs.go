package main

func runGround(w *World, which string) []*FnResult { return nil }

func tryReplay(w *World, prop string, o *Obligation, results []*FnResult) *Replay { return nil }

func rerunReplay(rf *replayFile) int { return 1 }
