package main
