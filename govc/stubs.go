package main

func runGround(w *World, which string) []*FnResult { return nil }
