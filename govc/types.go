package main

import (
	"fmt"
	"go/types"
	"strings"
)

// sortOf maps a Go type to an SMT sort, declaring datatypes on demand.
func (e *Engine) sortOf(t types.Type) string {
	if t == nil {
		return "Int"
	}
	switch u := t.Underlying().(type) {
	case *types.Basic:
		info := u.Info()
		switch {
		case info&types.IsBoolean != 0:
			return "Bool"
		case info&types.IsInteger != 0:
			return "Int"
		case info&types.IsString != 0:
			return "String"
		case info&types.IsFloat != 0:
			return "Real"
		}
		return "Int"
	case *types.Slice:
		return "Slice"
	case *types.Struct:
		return e.structSort(t, u)
	case *types.Array:
		return "(Array Int " + e.sortOf(u.Elem()) + ")"
	case *types.Tuple:
		return "Tuple"
	}
	return "Int" // pointers, maps, chans, funcs, interfaces, type params
}

func typeKey(t types.Type) string {
	return sanitize(types.TypeString(t, func(p *types.Package) string { return p.Name() }))
}

func (e *Engine) structSort(t types.Type, u *types.Struct) string {
	key := types.TypeString(t, nil)
	if s, ok := e.structSorts[key]; ok {
		return s
	}
	var name string
	if _, ok := t.(*types.Named); ok {
		name = "S_" + typeKey(t)
	} else if _, ok := t.(*types.Alias); ok {
		name = "S_" + typeKey(t)
	} else {
		name = fmt.Sprintf("S_anon%d", len(e.structSorts))
	}
	// avoid clashes
	for e.sortNames[name] {
		name += "_"
	}
	e.sortNames[name] = true
	e.structSorts[key] = name
	var fields []string
	for i := 0; i < u.NumFields(); i++ {
		fields = append(fields, fmt.Sprintf("(%s %s)", e.fieldSel(name, u, i), e.sortOf(u.Field(i).Type())))
	}
	if len(fields) == 0 {
		fields = append(fields, fmt.Sprintf("(%s_unit Int)", name))
	}
	e.sc.emit(fmt.Sprintf("(declare-datatypes ((%s 0)) (((mk_%s %s))))", name, name, strings.Join(fields, " ")))
	return name
}

func (e *Engine) fieldSel(sortName string, u *types.Struct, i int) string {
	return fmt.Sprintf("f_%s_%s", sortName, sanitize(u.Field(i).Name()))
}

// zero returns the zero value term for a Go type.
func (e *Engine) zero(t types.Type) string {
	switch u := t.Underlying().(type) {
	case *types.Basic:
		info := u.Info()
		switch {
		case info&types.IsBoolean != 0:
			return "false"
		case info&types.IsString != 0:
			return `""`
		case info&types.IsFloat != 0:
			return "0.0"
		}
		return "0"
	case *types.Slice:
		return "(mk_slice 0 0 0 0)"
	case *types.Struct:
		s := e.structSort(t, u)
		if u.NumFields() == 0 {
			return "(mk_" + s + " 0)"
		}
		var fs []string
		for i := 0; i < u.NumFields(); i++ {
			fs = append(fs, e.zero(u.Field(i).Type()))
		}
		return "(mk_" + s + " " + strings.Join(fs, " ") + ")"
	case *types.Array:
		return "((as const " + e.sortOf(t) + ") " + e.zero(u.Elem()) + ")"
	}
	return "0"
}

// ---------- heaps ----------

func (e *Engine) fieldHeapName(structT types.Type, u *types.Struct, i int) (string, string) {
	return "HF_" + typeKey(structT) + "_" + sanitize(u.Field(i).Name()), "(Array Int " + e.sortOf(u.Field(i).Type()) + ")"
}

func (e *Engine) sliceHeapName(elem types.Type) (string, string) {
	es := e.sortOf(elem)
	return "HS_" + typeKey(elem), "(Array Int (Array Int " + es + "))"
}

func (e *Engine) ptrHeapName(elem types.Type) (string, string) {
	es := e.sortOf(elem)
	return "HP_" + typeKey(elem), "(Array Int " + es + ")"
}

func (e *Engine) mapHeapNames(m *types.Map) (valH, valS, domH, domS string) {
	ks, vs := e.sortOf(m.Key()), e.sortOf(m.Elem())
	key := typeKey(m.Key()) + "_" + typeKey(m.Elem())
	if pp := privatePkgOf(m.Key()); pp != "" {
		e.markPrivate("HMv_"+key, pp)
		e.markPrivate("HMd_"+key, pp)
	} else if pp := privatePkgOf(m.Elem()); pp != "" {
		e.markPrivate("HMv_"+key, pp)
		e.markPrivate("HMd_"+key, pp)
	}
	return "HMv_" + key, "(Array Int (Array " + ks + " " + vs + "))", "HMd_" + key, "(Array Int (Array " + ks + " Bool))"
}

// typeTag returns a distinct integer tag for a concrete dynamic type.
func (e *Engine) typeTag(t types.Type) string {
	key := types.TypeString(t, nil)
	if n, ok := e.typeTags[key]; ok {
		return fmt.Sprint(n)
	}
	n := len(e.typeTags) + 1
	e.typeTags[key] = n
	return fmt.Sprint(n)
}

// boxFns declares box/unbox for a concrete type stored in an interface.
func (e *Engine) boxFns(t types.Type) (box, unbox string) {
	key := typeKey(t)
	box, unbox = "box_"+key, "unbox_"+key
	if !e.sc.declared[box] {
		s := e.sortOf(t)
		if s == "Tuple" {
			s = "Int"
		}
		e.sc.declareFun(box, []string{s}, "Int")
		e.sc.declareFun(unbox, []string{"Int"}, s)
		tag := e.typeTag(t)
		e.sc.assert(fmt.Sprintf("(forall ((v %s)) (! (and (= (%s (%s v)) v) (= (dyntype (%s v)) %s) (not (= (%s v) 0))) :pattern ((%s v))))", s, unbox, box, box, tag, box, box))
	}
	return
}

func isStruct(t types.Type) (*types.Struct, bool) {
	u, ok := t.Underlying().(*types.Struct)
	return u, ok
}

func deref(t types.Type) types.Type {
	if p, ok := t.Underlying().(*types.Pointer); ok {
		return p.Elem()
	}
	return t
}

// privatePkgOf: the package path if t is (a pointer/slice of) an unexported named type.
func privatePkgOf(t types.Type) string {
	for {
		switch u := t.(type) {
		case *types.Pointer:
			t = u.Elem()
			continue
		case *types.Slice:
			t = u.Elem()
			continue
		case *types.Named:
			if u.Obj().Pkg() != nil && !u.Obj().Exported() {
				return u.Obj().Pkg().Path()
			}
		}
		return ""
	}
}

func (e *Engine) markPrivate(heap, pkg string) {
	if e.privateHeaps == nil {
		e.privateHeaps = map[string]string{}
	}
	e.privateHeaps[heap] = pkg
}
