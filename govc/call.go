package main

import (
	"fmt"
	"go/token"
	"go/types"
	"strings"

	"golang.org/x/tools/go/ssa"
)

func (e *Engine) dataVal(v Val) Val {
	if v.Addr != nil && v.Clo == nil {
		return Val{T: e.ptrTerm(v), S: "Int", GoT: v.GoT}
	}
	return v
}

func (e *Engine) execCall(fc *fnCtx, b *ssa.BasicBlock, st *State, c *ssa.CallCommon, instr *ssa.Call, pos token.Pos) Val {
	if fc.contract != nil && (len(fc.contract.Preserves) > 0 || len(fc.contract.Assumes) > 0) && len(e.inlineStack) == 0 && instr != nil {
		if key := e.callKey(fc, c, instr); key != "" {
			ds, hasP := fc.contract.Preserves[key]
			all := fc.contract.PreserveAll[key]
			as, hasA := fc.contract.Assumes[key]
			if hasP || all || hasA {
				pre := st.clone()
				if all {
					e.preserveAllCall = true
				}
				v := e.execCall0(fc, b, st, c, instr, pos)
				if all {
					// trusted: the call changes nothing that existed before it; it may allocate. A callee with a contract
					// was applied without havoc (applyContract consumed the flag: only ghost state is havoc'd and the
					// allocation counter grows - what the callee wrote into the objects it allocated is whatever the
					// unallocated part of the heaps holds, constrained only by its postconditions). Any other callee:
					// restore the pre-call heaps, keep the new allocation counter.
					if e.preserveAllCall {
						e.preserveAllCall = false
						ac := e.allocCounter(st)
						st.Heaps = map[string]string{}
						for k, h := range pre.Heaps {
							st.Heaps[k] = h
						}
						st.Epoch = pre.Epoch
						st.Heaps[allocHeap] = ac
					}
					e.w.Trusted["caller-side frame assumption: "+fc.fn.Name()+" ["+key+"] changes no location that existed before the call"] = true
				} else if hasP {
					e.applyPreserves(fc, pre, st, ds, key)
				}
				if hasA {
					e.applyAssumes(fc, st, as, key, v, c.Signature())
				}
				return v
			}
		}
	}
	return e.execCall0(fc, b, st, c, instr, pos)
}

func (e *Engine) execCall0(fc *fnCtx, b *ssa.BasicBlock, st *State, c *ssa.CallCommon, instr *ssa.Call, pos token.Pos) Val {
	var resT types.Type = c.Signature().Results()
	if c.Signature().Results().Len() == 1 {
		resT = c.Signature().Results().At(0).Type()
	}
	var args []Val
	for _, a := range c.Args {
		args = append(args, e.dataVal(e.val(fc, a)))
	}
	if c.IsInvoke() {
		if fc.contract != nil && len(fc.contract.Asserts) > 0 && len(e.inlineStack) == 0 && instr != nil {
			e.checkCallAsserts(fc, st, c, instr, pos)
		}
		recv := e.val(fc, c.Value)
		txt := e.srcText(pos, "call")
		e.addObl(fc.fn, "nilderef", txt, pos, st.Reach, "(not (= "+recv.T+" 0))")
		key := ifaceMethodKey(c.Method)
		all := append([]Val{recv}, args...)
		if ic, ok := e.w.ISpecs[key]; ok {
			return e.applyContract(fc, st, ic, all, pos, key)
		}
		if v, ok := e.builtinISpec(fc, st, key, c, all, resT); ok {
			return v
		}
		if e.sweep {
			e.note("interface call without ispec: results havoc'd, all heaps havoc'd")
		}
		e.havocAll(st, "invoke "+key)
		return e.freshVal("inv_"+c.Method.Name(), resT)
	}
	if bi, ok := c.Value.(*ssa.Builtin); ok {
		return e.execBuiltin(fc, b, st, bi, c, args, pos, resT)
	}
	if fc.contract != nil && len(fc.contract.Asserts) > 0 && len(e.inlineStack) == 0 && instr != nil {
		e.checkCallAsserts(fc, st, c, instr, pos)
	}
	var callee *ssa.Function
	var free []Val
	if sc := c.StaticCallee(); sc != nil {
		callee = sc
		if mc, ok := c.Value.(*ssa.MakeClosure); ok {
			free = e.val(fc, mc).Clo.Bindings
		}
	} else {
		fv := e.val(fc, c.Value)
		if fv.Clo != nil {
			callee = fv.Clo.Fn.(*ssa.Function)
			free = fv.Clo.Bindings
		}
	}
	if callee == nil {
		e.note("call through unknown function value: all heaps havoc'd")
		e.havocAll(st, "dynamic call")
		return e.freshVal("dyn", resT)
	}
	if ct, ok := e.w.Contracts[callee]; ok {
		return e.applyContract(fc, st, ct, args, pos, funcDisplayName(callee), callee.Signature)
	}
	if o := callee.Origin(); o != nil {
		if ct, ok := e.w.Contracts[o]; ok {
			return e.applyContract(fc, st, ct, args, pos, funcDisplayName(callee), callee.Signature)
		}
	}
	name := callee.String()
	if o := callee.Origin(); o != nil {
		name = o.String()
	}
	if h, ok := stdlibHandlers[name]; ok {
		e.w.Trusted[name] = true
		if v, ok := h(e, fc, st, c, args, resT); ok {
			return v
		}
	}
	if pureRepoPrefix(name) {
		e.w.Trusted["logging has no effect on program state: "+repoMod+"/log"] = true
		return e.freshVal("log", resT)
	}
	if e.canInline(fc, callee) {
		return e.inlineCall(fc, st, callee, args, free, resT)
	}
	return e.havocCall(fc, st, callee, c, args, resT)
}

func isRepoFn(fn *ssa.Function) bool {
	if fn.Pkg != nil {
		return strings.HasPrefix(fn.Pkg.Pkg.Path(), repoMod)
	}
	if p := fn.Parent(); p != nil {
		return isRepoFn(p)
	}
	if o := fn.Origin(); o != nil && o != fn {
		return isRepoFn(o)
	}
	if fn.Object() != nil && fn.Object().Pkg() != nil {
		return strings.HasPrefix(fn.Object().Pkg().Path(), repoMod)
	}
	return false
}

func (e *Engine) canInline(fc *fnCtx, callee *ssa.Function) bool {
	if len(callee.Blocks) == 0 || !isRepoFn(callee) {
		return false
	}
	if len(e.inlineStack) >= 4 {
		return false
	}
	if callee == e.topFn {
		return false
	}
	for _, f := range e.inlineStack {
		if f == callee {
			return false
		}
	}
	n := 0
	for _, b := range callee.Blocks {
		n += len(b.Instrs)
		for _, s := range b.Succs {
			if s.Dominates(b) {
				return false // has a loop
			}
		}
		for _, ins := range b.Instrs {
			switch ins.(type) {
			case *ssa.Go, *ssa.Select, *ssa.Send, *ssa.MakeChan:
				return false
			}
		}
	}
	return n <= 400
}

func (e *Engine) inlineCall(fc *fnCtx, st *State, callee *ssa.Function, args, free []Val, resT types.Type) Val {
	nfc := e.newFnCtx(callee)
	nfc.depth = fc.depth + 1
	e.inlineStack = append(e.inlineStack, callee)
	exit, results := e.runFunction(nfc, st, args, free)
	e.inlineStack = e.inlineStack[:len(e.inlineStack)-1]
	*st = *exit
	if len(results) == 0 {
		return Val{S: "Tuple", GoT: resT}
	}
	if len(results) == 1 {
		return results[0]
	}
	return Val{S: "Tuple", Tuple: results, GoT: resT}
}

// havocCall: unknown effect. Repository callees: everything; external callees: only what their pointer-like arguments reach (shallow).
func (e *Engine) havocCall(fc *fnCtx, st *State, callee *ssa.Function, c *ssa.CallCommon, args []Val, resT types.Type) Val {
	name := callee.String()
	if isRepoFn(callee) {
		if pureRepoPrefix(name) {
			return e.freshVal("res_"+callee.Name(), resT)
		}
		e.note("call to " + funcDisplayName(callee) + " (no contract, not inlinable): results and all heaps havoc'd")
		e.havocAll(st, name)
		return e.freshVal("res_"+callee.Name(), resT)
	}
	e.note("external callee without contract: result havoc'd, memory reachable through pointer/slice/map arguments havoc'd shallowly: " + name)
	e.w.Trusted["frame-only:"+name] = true
	for i, a := range args {
		if i >= len(c.Args) {
			break
		}
		e.shallowHavoc(st, a, c.Args[i].Type())
		// a pointer passed as `any` (json.Unmarshal(data, &v), Decode(&v)): the pointee may be overwritten
		if mi, ok := c.Args[i].(*ssa.MakeInterface); ok {
			if _, isPtr := mi.X.Type().Underlying().(*types.Pointer); isPtr {
				e.shallowHavoc(st, e.dataVal(e.val(fc, mi.X)), mi.X.Type())
			}
		}
	}
	return e.freshVal("ext_"+callee.Name(), resT)
}

func pureRepoPrefix(name string) bool {
	return strings.HasPrefix(name, repoMod+"/log.")
}

func (e *Engine) shallowHavoc(st *State, a Val, t types.Type) {
	if a.Clo != nil {
		for _, bnd := range a.Clo.Bindings {
			if bnd.Addr == nil && bnd.GoT != nil {
				e.shallowHavoc(st, bnd, bnd.GoT)
			}
		}
		return
	}
	switch u := t.Underlying().(type) {
	case *types.Pointer:
		el := u.Elem()
		if su, ok := isStruct(el); ok {
			for i := 0; i < su.NumFields(); i++ {
				hn, hs := e.fieldHeapName(el, su, i)
				h := e.heapIn(st, hn, hs)
				e.setHeapIn(st, hn, hs, store(h, a.T, e.sc.declareConst("hv", e.sortOf(su.Field(i).Type()))))
			}
		} else if arr, ok := el.Underlying().(*types.Array); ok {
			hn, hs := e.sliceHeapName(arr.Elem())
			h := e.heapIn(st, hn, hs)
			e.setHeapIn(st, hn, hs, store(h, a.T, e.sc.declareConst("hv", "(Array Int "+e.sortOf(arr.Elem())+")")))
		} else {
			hn, hs := e.ptrHeapName(el)
			h := e.heapIn(st, hn, hs)
			e.setHeapIn(st, hn, hs, store(h, a.T, e.sc.declareConst("hv", e.sortOf(el))))
		}
	case *types.Slice:
		hn, hs := e.sliceHeapName(u.Elem())
		h := e.heapIn(st, hn, hs)
		e.setHeapIn(st, hn, hs, store(h, "(s_ref "+a.T+")", e.sc.declareConst("hv", "(Array Int "+e.sortOf(u.Elem())+")")))
	case *types.Map:
		vh, vs, dh, ds := e.mapHeapNames(u)
		ks, vsrt := e.sortOf(u.Key()), e.sortOf(u.Elem())
		e.setHeapIn(st, vh, vs, store(e.heapIn(st, vh, vs), a.T, e.sc.declareConst("hv", "(Array "+ks+" "+vsrt+")")))
		e.setHeapIn(st, dh, ds, store(e.heapIn(st, dh, ds), a.T, e.sc.declareConst("hv", "(Array "+ks+" Bool)")))
	}
}

// ---------- builtins ----------

func (e *Engine) execBuiltin(fc *fnCtx, b *ssa.BasicBlock, st *State, bi *ssa.Builtin, c *ssa.CallCommon, args []Val, pos token.Pos, resT types.Type) Val {
	switch bi.Name() {
	case "len":
		a := args[0]
		switch u := c.Args[0].Type().Underlying().(type) {
		case *types.Slice:
			return Val{T: e.sc.define("len", "Int", "(s_len "+a.T+")"), S: "Int"}
		case *types.Basic:
			return Val{T: e.sc.define("len", "Int", "(str.len "+a.T+")"), S: "Int"}
		case *types.Map:
			return Val{T: e.sc.define("len", "Int", ite("(= "+a.T+" 0)", "0", e.mapLenTerm(st, u, a.T))), S: "Int"}
		case *types.Array:
			return Val{T: fmt.Sprint(u.Len()), S: "Int"}
		case *types.Pointer:
			if arr, ok := u.Elem().Underlying().(*types.Array); ok {
				return Val{T: fmt.Sprint(arr.Len()), S: "Int"}
			}
		}
		v := e.freshVal("len", types.Typ[types.Int])
		e.assume(st, "(>= "+v.T+" 0)")
		return v
	case "cap":
		if _, ok := c.Args[0].Type().Underlying().(*types.Slice); ok {
			return Val{T: "(s_cap " + args[0].T + ")", S: "Int"}
		}
		v := e.freshVal("cap", types.Typ[types.Int])
		e.assume(st, "(>= "+v.T+" 0)")
		return v
	case "append":
		return e.execAppend(fc, b, st, c, args, pos)
	case "copy":
		n := e.freshVal("copied", types.Typ[types.Int])
		if sl, ok := c.Args[0].Type().Underlying().(*types.Slice); ok {
			srcLen := "(s_len " + args[1].T + ")"
			if isStringT(c.Args[1].Type()) {
				srcLen = "(str.len " + args[1].T + ")"
			}
			e.assume(st, "(= "+n.T+" (imin (s_len "+args[0].T+") "+srcLen+"))")
			e.shallowHavoc(st, args[0], sl)
			e.note("copy(): destination elements havoc'd")
		}
		return n
	case "delete":
		m := c.Args[0].Type().Underlying().(*types.Map)
		_, _, dh, ds := e.mapHeapNames(m)
		hd := e.heapIn(st, dh, ds)
		e.setHeapIn(st, dh, ds, store(hd, args[0].T, store(sel(hd, args[0].T), args[1].T, "false")))
		e.logStore(dh, args[0].T)
		return Val{S: "Tuple"}
	case "min", "max":
		f := "imin"
		if bi.Name() == "max" {
			f = "imax"
		}
		if e.sortOf(resT) != "Int" {
			return e.freshVal("minmax", resT)
		}
		cur := args[0].T
		for _, a := range args[1:] {
			cur = "(" + f + " " + cur + " " + a.T + ")"
		}
		return Val{T: e.sc.define("mm", "Int", cur), S: "Int", GoT: resT}
	case "print", "println":
		return Val{S: "Tuple"}
	case "clear":
		e.shallowHavoc(st, args[0], c.Args[0].Type())
		return Val{S: "Tuple"}
	case "recover":
		return e.freshVal("recovered", resT)
	case "ssa:wrapnilchk":
		e.addObl(fc.fn, "nilderef", e.srcText(pos, "sel"), pos, st.Reach, "(not (= "+args[0].T+" 0))")
		return args[0]
	case "ssa:deferstack":
		return Val{T: "0", S: "Int"}
	case "close":
		e.reject("channel close")
	case "new":
		t := c.Args[0].Type()
		ref := e.newRef(st, "new")
		e.initPointee(st, ref, t)
		return Val{T: ref, S: "Int"}
	}
	return e.freshVal("builtin_"+bi.Name(), resT)
}

func (e *Engine) execAppend(fc *fnCtx, b *ssa.BasicBlock, st *State, c *ssa.CallCommon, args []Val, pos token.Pos) Val {
	s := args[0]
	sl := c.Args[0].Type().Underlying().(*types.Slice)
	hn, hs := e.sliceHeapName(sl.Elem())
	es := e.sortOf(sl.Elem())
	if len(args) < 2 {
		return s
	}
	t := args[1]
	// constant-length second operand (varargs array)?
	k := int64(-1)
	if ssl, ok := c.Args[1].(*ssa.Slice); ok && ssl.Low == nil && ssl.High == nil {
		if al, ok := ssl.X.(*ssa.Alloc); ok {
			if arr, ok := deref(al.Type()).Underlying().(*types.Array); ok {
				k = arr.Len()
			}
		}
	}
	if cst, ok := c.Args[1].(*ssa.Const); ok && cst.Value == nil {
		k = 0
	}
	ln, off, cp, ref := "(s_len "+s.T+")", "(s_off "+s.T+")", "(s_cap "+s.T+")", "(s_ref "+s.T+")"
	H := e.heapIn(st, hn, hs)
	if k == 0 {
		return s
	}
	if k > 0 && k <= 8 {
		sh := e.sc.define("app_shared", "Bool", fmt.Sprintf("(<= (+ %s %d) %s)", ln, k, cp))
		fresh := e.newRef(st, "append")
		nref := e.sc.define("app_ref", "Int", ite(sh, ref, fresh))
		arr := sel(H, ref)
		tarr := sel(H, "(s_ref "+t.T+")")
		for j := int64(0); j < k; j++ {
			arr = store(arr, fmt.Sprintf("(ix %s (+ %s %d))", off, ln, j), sel(tarr, fmt.Sprintf("(ix (s_off %s) %d)", t.T, j)))
		}
		e.setHeapIn(st, hn, hs, store(H, nref, arr))
		e.logStore(hn, nref)
		ncap := e.sc.declareConst("app_cap", "Int")
		e.sc.assert(fmt.Sprintf("(>= %s (+ %s %d))", ncap, ln, k))
		return Val{T: e.sc.define("app", "Slice", fmt.Sprintf("(mk_slice %s %s (+ %s %d) %s)", nref, off, ln, k, ite(sh, cp, ncap))), S: "Slice", GoT: c.Args[0].Type()}
	}
	// general case: quantified copy
	var tlen string
	isStr := isStringT(c.Args[1].Type())
	if isStr {
		tlen = "(str.len " + t.T + ")"
	} else {
		tlen = "(s_len " + t.T + ")"
	}
	sh := e.sc.define("app_shared", "Bool", "(<= (+ "+ln+" "+tlen+") "+cp+")")
	fresh := e.newRef(st, "append")
	nref := e.sc.define("app_ref", "Int", ite("(and "+sh+" (not (= "+ref+" 0)))", ref, fresh))
	narr := e.sc.declareConst("app_arr", "(Array Int "+es+")")
	oarr := sel(H, ref)
	var elemAt string
	if isStr {
		elemAt = "(str.to_code (str.at " + t.T + " (- j " + ln + ")))"
	} else {
		elemAt = sel(sel(H, "(s_ref "+t.T+")"), "(ix (s_off "+t.T+") (- j "+ln+"))")
	}
	e.sc.assert(implies(st.Reach, "(forall ((j Int)) (! (=> (and (<= 0 j) (< j "+ln+")) (= (select "+narr+" (ix "+off+" j)) (select "+oarr+" (ix "+off+" j)))) :pattern ((select "+narr+" (ix "+off+" j)))))"))
	e.sc.assert(implies(st.Reach, "(forall ((j Int)) (! (=> (and (<= "+ln+" j) (< j (+ "+ln+" "+tlen+"))) (= (select "+narr+" (ix "+off+" j)) "+elemAt+")) :pattern ((select "+narr+" (ix "+off+" j)))))"))
	if !isStr {
		// the same fact keyed by the source element, so that "the k-th appended element is in the result" finds its index
		tarr := sel(H, "(s_ref "+t.T+")")
		e.sc.assert(implies(st.Reach, "(forall ((k Int)) (! (=> (and (<= 0 k) (< k "+tlen+")) (= (select "+narr+" (ix "+off+" (+ "+ln+" k))) (select "+tarr+" (ix (s_off "+t.T+") k)))) :pattern ((select "+tarr+" (ix (s_off "+t.T+") k)))))"))
	}
	e.setHeapIn(st, hn, hs, store(H, nref, narr))
	e.logStore(hn, nref)
	e.note("append with non-constant operand: other elements of a shared backing array are not preserved (havoc)")
	ncap := e.sc.declareConst("app_cap", "Int")
	e.sc.assert("(>= " + ncap + " (+ " + ln + " " + tlen + "))")
	return Val{T: e.sc.define("app", "Slice", "(mk_slice "+nref+" "+off+" (+ "+ln+" "+tlen+") "+ncap+")"), S: "Slice", GoT: c.Args[0].Type()}
}

// ---------- contracts at call sites ----------

func (e *Engine) contractEnv(c *Contract, args []Val, st, old *State) *SpecEnv {
	env := &SpecEnv{e: e, vars: map[string]Val{}, lets: map[string]SExpr{}, st: st, old: old, pkg: c.Pkg, pos: c.Pos, entryVals: map[string]Val{}}
	sig := c.Sig
	idx := 0
	if c.Recv != "" {
		if idx < len(args) {
			v := args[idx]
			if c.IsISpec {
				// receiver of an interface method: the interface value
			} else if sig.Recv() != nil {
				v.GoT = sig.Recv().Type()
			}
			env.vars[c.Params[0]] = v
			env.entryVals[c.Params[0]] = v
		}
		idx++
	}
	for i := 0; i < sig.Params().Len(); i++ {
		if idx < len(args) && idx < len(c.Params) {
			v := args[idx]
			v.GoT = sig.Params().At(i).Type()
			env.vars[c.Params[idx]] = v
			env.entryVals[c.Params[idx]] = v
		}
		idx++
	}
	for _, l := range c.Lets {
		env.lets[l.Name] = l.E
	}
	return env
}

func (env *SpecEnv) bindResults(sig *types.Signature, results []Val) {
	for i, r := range results {
		r.GoT = sig.Results().At(i).Type()
		name := "result"
		if i > 0 {
			name = fmt.Sprintf("result%d", i)
		}
		env.vars[name] = r
		if n := sig.Results().At(i).Name(); n != "" && n != "_" {
			if _, clash := env.vars[n]; !clash {
				env.vars[n] = r
			}
		}
	}
}

func (e *Engine) applyContract(fc *fnCtx, st *State, c *Contract, args []Val, pos token.Pos, calleeName string, actual ...*types.Signature) Val {
	if len(actual) > 0 && actual[0] != nil && c.Sig != actual[0] {
		cc := *c
		cc.Sig = actual[0]
		c = &cc
	}
	pre := st.clone()
	env := e.contractEnv(c, args, pre, pre)
	for i, rq := range c.Requires {
		f := e.trSpec(env, rq.E).T
		lbl := rq.Label
		if lbl == "" {
			lbl = fmt.Sprint(i)
		}
		e.addObl(fc.fn, "pre-of", fmt.Sprintf("%s[%s]", calleeName, lbl), pos, st.Reach, f)
	}
	preserveAll := false
	if e.preserveAllCall && len(e.inlineStack) == 0 {
		preserveAll = true
		e.preserveAllCall = false
	}
	if c.ModAll && preserveAll {
		for _, g := range e.w.Ghosts {
			// make every ghost variable known so that it is havoc'd below
			e.heapIn(st, "GH_"+g.Pkg.PkgPath+"."+g.Name, e.sortOf(g.Type))
		}
		for _, n := range sortedKeys(e.heapSorts) {
			if strings.HasPrefix(n, "GH_") {
				st.Heaps[n] = e.sc.declareConst("gh", e.heapSorts[n])
			}
		}
		old := e.allocCounter(st)
		na := e.sc.declareConst("alloc", "Int")
		e.sc.assert("(>= " + na + " " + old + ")")
		st.Heaps[allocHeap] = na
	} else if c.ModAll {
		// type-visibility frame: a callee in another package that receives no function value cannot reach maps whose
		// key or element type is an unexported type of the calling package
		curPkg := ""
		if fc.fn.Pkg != nil {
			curPkg = fc.fn.Pkg.Pkg.Path()
		}
		calleePkg := ""
		if c.Pkg != nil {
			calleePkg = c.Pkg.PkgPath
		}
		hasFuncArg := false
		for _, a := range args {
			if a.Clo != nil {
				hasFuncArg = true
			}
		}
		if curPkg != "" && calleePkg != curPkg && !hasFuncArg && !c.IsISpec {
			e.havocAllExcept(st, "modifies * of "+calleeName, func(n string) bool { return e.privateHeaps[n] == curPkg })
			e.note("type-visibility frame: maps over unexported types of " + curPkg + " survive the call to " + calleeName)
		} else {
			e.havocAll(st, "modifies * of "+calleeName)
		}
	} else {
		for _, m := range c.Modifies {
			e.havocDesignator(env, st, m)
		}
	}
	sig := c.Sig
	var results []Val
	for i := 0; i < sig.Results().Len(); i++ {
		results = append(results, e.freshVal("r_"+c.Name, sig.Results().At(i).Type()))
	}
	if c.IsISpec && c.Pure && len(results) == 1 {
		// deterministic in receiver and arguments: same uninterpreted function the specifications use
		pv := e.pureMethodTerm(c.IfaceKey, args, sig)
		results[0].T = e.sc.define("r_"+c.Name, results[0].S, pv.T)
	}
	if !c.ModAll {
		// any call may allocate
		old := e.allocCounter(st)
		na := e.sc.declareConst("alloc", "Int")
		e.sc.assert("(>= " + na + " " + old + ")")
		st.Heaps[allocHeap] = na
	}
	for i, r := range results {
		e.loadFacts(st, r, sig.Results().At(i).Type())
	}
	post := e.contractEnv(c, args, st, pre)
	post.bindResults(sig, results)
	for _, en := range c.Ensures {
		e.assume(st, e.trSpec(post, en.E).T)
	}
	var rt types.Type = sig.Results()
	if len(results) == 0 {
		return Val{S: "Tuple", GoT: rt}
	}
	if len(results) == 1 {
		return results[0]
	}
	return Val{S: "Tuple", Tuple: results, GoT: rt}
}

// isQualifiedGhost: pkg.ghostVar of an imported package.
func (e *Engine) isQualifiedGhost(env *SpecEnv, x SSel) bool {
	if id, ok := x.X.(SIdent); ok {
		if pkg := e.importedPkgIfUnbound(env, id.Name); pkg != nil {
			_, ok := e.w.Ghosts[pkg.Path()+"."+x.Sel]
			return ok
		}
	}
	return false
}

// havocDesignator applies one `modifies` designator to st.
func (e *Engine) havocDesignator(env *SpecEnv, st *State, d SExpr) {
	// p.f where p may be the address of a struct field of the function under verification (an interior pointer): the
	// location lives inside the owner's struct-valued field, which is what has to change
	if x, ok := d.(SSel); ok && !e.isQualifiedGhost(env, x) {
		base := e.trSpec(env, x.X)
		if base.GoT != nil {
			if pt, ok := base.GoT.Underlying().(*types.Pointer); ok {
				bt := pt.Elem()
				if u, ok := isStruct(bt); ok {
					if cands := e.interiorCands(bt); len(cands) > 0 {
						for i := 0; i < u.NumFields(); i++ {
							if u.Field(i).Name() != x.Sel {
								continue
							}
							hn, hs := e.fieldHeapName(bt, u, i)
							fresh := e.sc.declareConst("mod_"+hn, e.sortOf(u.Field(i).Type()))
							isPlain := "true"
							for _, c := range cands {
								cond := "(= (pkind " + base.T + ") " + fmt.Sprint(c.id) + ")"
								h := e.heapIn(st, c.heap, c.sort)
								own := "(" + c.owner + " " + base.T + ")"
								path := append(append([]pathStep{}, c.path...), pathStep{Field: i, T: bt})
								e.setHeapIn(st, c.heap, c.sort, ite(cond, store(h, own, e.updatePath(sel(h, own), c.baseT, path, fresh)), h))
								isPlain = and(isPlain, not(cond))
							}
							h := e.heapIn(st, hn, hs)
							e.setHeapIn(st, hn, hs, ite(isPlain, store(h, base.T, fresh), h))
							return
						}
					}
				}
			}
		}
	}
	for _, loc := range e.designatorLocs(env, d) {
		if loc.ref == "" {
			e.setHeapIn(st, loc.heap, loc.sort, e.sc.declareConst("mod_"+loc.heap, loc.sort))
			continue
		}
		h := e.heapIn(st, loc.heap, loc.sort)
		elemSort := strings.TrimSuffix(strings.TrimPrefix(loc.sort, "(Array Int "), ")")
		nh := store(h, loc.ref, e.sc.declareConst("mod_"+loc.heap, elemSort))
		if strings.HasPrefix(loc.heap, "HS_") {
			// the backing array of a nil slice (reference 0) does not exist: nothing is ever stored there
			nh = ite("(= "+loc.ref+" 0)", h, nh)
		}
		e.setHeapIn(st, loc.heap, loc.sort, nh)
	}
}

type heapLoc struct {
	heap, sort, ref string
}

// designatorLocs resolves a modifies designator: p.f | *p | elems(s) | mapOf(m) | ghostVar | pkgVar | alloc
func (e *Engine) designatorLocs(env *SpecEnv, d SExpr) []heapLoc {
	switch x := d.(type) {
	case SSel:
		if id, ok := x.X.(SIdent); ok {
			if _, bound := env.vars[id.Name]; !bound {
				if pkg := e.importedPkgIfUnbound(env, id.Name); pkg != nil {
					if g, ok := e.w.Ghosts[pkg.Path()+"."+x.Sel]; ok {
						return []heapLoc{{"GH_" + g.Pkg.PkgPath + "." + g.Name, e.sortOf(g.Type), ""}}
					}
				}
			}
		}
		base := e.trSpec(env, x.X)
		t := base.GoT
		if t == nil {
			e.specFail(env, "modifies: untyped base in "+specString(d))
		}
		st := deref(t)
		u, ok := isStruct(st)
		if !ok {
			e.specFail(env, "modifies: not a struct: "+specString(d))
		}
		for i := 0; i < u.NumFields(); i++ {
			if u.Field(i).Name() == x.Sel {
				hn, hs := e.fieldHeapName(st, u, i)
				return []heapLoc{{hn, hs, base.T}}
			}
		}
		e.specFail(env, "modifies: no field "+x.Sel)
	case SUn:
		if x.Op == "*" {
			base := e.trSpec(env, x.X)
			st := deref(base.GoT)
			var out []heapLoc
			if u, ok := isStruct(st); ok {
				for i := 0; i < u.NumFields(); i++ {
					hn, hs := e.fieldHeapName(st, u, i)
					out = append(out, heapLoc{hn, hs, base.T})
				}
				return out
			}
			hn, hs := e.ptrHeapName(st)
			return []heapLoc{{hn, hs, base.T}}
		}
	case SCall:
		if id, ok := x.Fun.(SIdent); ok && len(x.Args) == 1 {
			switch id.Name {
			case "elems":
				s := e.trSpec(env, x.Args[0])
				sl, ok := s.GoT.Underlying().(*types.Slice)
				if !ok {
					e.specFail(env, "elems() of non-slice")
				}
				hn, hs := e.sliceHeapName(sl.Elem())
				return []heapLoc{{hn, hs, "(s_ref " + s.T + ")"}}
			case "scanState":
				// the position and error state of a bufio.Scanner
				sc := e.trSpec(env, x.Args[0])
				return []heapLoc{{"HF_bufio.Scanner_$pos", "(Array Int Int)", sc.T}, {"HF_bufio.Scanner_$err", "(Array Int Int)", sc.T}}
			case "mapOf":
				m := e.trSpec(env, x.Args[0])
				mt, ok := m.GoT.Underlying().(*types.Map)
				if !ok {
					e.specFail(env, "mapOf() of non-map")
				}
				vh, vs, dh, ds := e.mapHeapNames(mt)
				return []heapLoc{{vh, vs, m.T}, {dh, ds, m.T}}
			}
		}
	case SIdent:
		if x.Name == "alloc" {
			return []heapLoc{{allocHeap, "Int", ""}}
		}
		if x.Name == "lastCopied" {
			return []heapLoc{{"GH_io.lastCopied", "Int", ""}}
		}
		if g := e.lookupGhost(env, x.Name); g != nil {
			return []heapLoc{{"GH_" + g.Pkg.PkgPath + "." + g.Name, e.sortOf(g.Type), ""}}
		}
		if env.fc != nil {
			// a heap-allocated (captured / address-taken) local variable: the variable's own cell
			for _, b := range env.fc.fn.Blocks {
				for _, ins := range b.Instrs {
					if a, ok := ins.(*ssa.Alloc); ok && a.Heap && a.Comment == x.Name {
						if rv, ok := env.fc.regs[a]; ok {
							hn, hs := e.ptrHeapName(deref(a.Type()))
							return []heapLoc{{hn, hs, rv.T}}
						}
					}
				}
			}
		}
		if obj := env.pkg.Types.Scope().Lookup(x.Name); obj != nil {
			if v, ok := obj.(*types.Var); ok {
				return []heapLoc{{"G_" + env.pkg.PkgPath + "." + x.Name, e.sortOf(v.Type()), ""}}
			}
		}
	}
	e.specFail(env, "unsupported modifies designator "+specString(d))
	return nil
}

// callName: the name used in call keys: the static callee (without the module prefix) or the interface method key.
func callName(c *ssa.CallCommon) string {
	if c.IsInvoke() {
		return strings.ReplaceAll(ifaceMethodKey(c.Method), repoMod+"/", "")
	}
	sc := c.StaticCallee()
	if sc == nil {
		return ""
	}
	name := sc.String()
	if o := sc.Origin(); o != nil {
		name = o.String()
	}
	return strings.ReplaceAll(name, repoMod+"/", "")
}

// callKey: "call <callee>#<occurrence>" for a static or interface call of the function under verification.
func (e *Engine) callKey(fc *fnCtx, c *ssa.CallCommon, instr *ssa.Call) string {
	name := callName(c)
	if name == "" {
		return ""
	}
	if fc.callOcc == nil {
		fc.callOcc = map[*ssa.Call]int{}
		counts := map[string]int{}
		for _, b := range fc.fn.Blocks {
			for _, ins := range b.Instrs {
				if call, ok := ins.(*ssa.Call); ok {
					if n := callName(call.Common()); n != "" {
						fc.callOcc[call] = counts[n]
						counts[n]++
					}
				}
			}
		}
	}
	return fmt.Sprintf("call %s#%d", name, fc.callOcc[instr])
}

// callSiteEnv: specification environment at a call site of the function under verification (locals by name; the
// parameters denote their current values).
func (e *Engine) callSiteEnv(fc *fnCtx, st *State) *SpecEnv {
	env := fc.env.with(st)
	env.fc = fc
	env.vars = map[string]Val{}
	for k, v := range fc.env.vars {
		if _, isParam := fc.env.entryVals[k]; isParam {
			if _, ok := e.localByName(env, k); ok {
				continue
			}
		}
		env.vars[k] = v
	}
	return env
}

// checkCallAsserts: `assert[call pkg.Func#k] e` clauses of the contract are obligations at the k-th call of that callee.
func (e *Engine) checkCallAsserts(fc *fnCtx, st *State, c *ssa.CallCommon, instr *ssa.Call, pos token.Pos) {
	key := e.callKey(fc, c, instr)
	if key == "" {
		return
	}
	for _, cl := range fc.contract.Asserts[key] {
		env := e.callSiteEnv(fc, st)
		env.curBlock = instr.Block()
		env.at = pos
		f, okc := e.clauseTerm(env, cl)
		if !okc {
			continue
		}
		e.addObl(fc.fn, "assert", "["+key+"] "+cl.Text, pos, st.Reach, f)
	}
}

// applyAssumes: `assume[call f#k] e` - a trusted statement about the environment, assumed right after the k-th call
// of f; the call's results are result, result1, ... Every such clause is listed in the trusted base.
func (e *Engine) applyAssumes(fc *fnCtx, st *State, cls []Clause, key string, v Val, sig *types.Signature) {
	env := e.callSiteEnv(fc, st)
	if sig != nil {
		if len(v.Tuple) > 0 {
			env.bindResults(sig, v.Tuple)
		} else if sig.Results().Len() == 1 {
			env.bindResults(sig, []Val{v})
		}
	}
	for _, cl := range cls {
		f, okc := e.clauseTerm(env, cl)
		if !okc {
			continue
		}
		e.assume(st, f)
		e.w.Trusted["call-site assumption: "+fc.fn.Name()+" ["+key+"] "+cl.Text] = true
	}
}

// applyPreserves: trusted frame annotation of the caller - the listed locations have the same content after the call.
func (e *Engine) applyPreserves(fc *fnCtx, pre, post *State, ds []SExpr, key string) {
	if e.droppedClause["preserves["+key+"]"] {
		return
	}
	var dummy string
	defer e.recoverClause("preserves["+key+"]", &dummy)
	env := fc.env.with(pre)
	env.fc = fc
	env.vars = map[string]Val{}
	for k, v := range fc.env.vars {
		if _, isParam := fc.env.entryVals[k]; isParam {
			if _, ok := e.localByName(env, k); ok {
				continue
			}
		}
		env.vars[k] = v
	}
	for _, d := range ds {
		if call, ok := d.(SCall); ok {
			if id, ok := call.Fun.(SIdent); ok && id.Name == "allElems" && len(call.Args) == 1 {
				// allElems(T): every slice backing array with element type T that existed before the call
				t, err := e.w.resolveType(env.pkg, env.pos, specString(call.Args[0]))
				if err != nil {
					e.specFail(env, err.Error())
				}
				hn, hs := e.sliceHeapName(t)
				hp, hq := e.heapIn(pre, hn, hs), e.heapIn(post, hn, hs)
				e.assume(post, "(forall ((r Int)) (! (=> (<= r "+e.allocCounter(pre)+") (= (select "+hq+" r) (select "+hp+" r))) :pattern ((select "+hq+" r))))")
				e.w.Trusted["caller-side frame assumption: "+key+" preserves "+specString(d)] = true
				continue
			}
		}
		for _, loc := range e.designatorLocs(env, d) {
			if loc.ref == "" {
				post.Heaps[loc.heap] = e.heapIn(pre, loc.heap, loc.sort)
				continue
			}
			hp, hq := e.heapIn(pre, loc.heap, loc.sort), e.heapIn(post, loc.heap, loc.sort)
			e.assume(post, eq(sel(hq, loc.ref), sel(hp, loc.ref)))
		}
		e.w.Trusted["caller-side frame assumption: "+key+" preserves "+specString(d)] = true
	}
}
