package main

import (
	"fmt"
	"go/token"
	"go/types"

	"golang.org/x/tools/go/ssa"
)

func (e *Engine) execUnOp(fc *fnCtx, b *ssa.BasicBlock, st *State, x *ssa.UnOp) {
	switch x.Op {
	case token.MUL:
		a := e.addrOf(fc, st, x.X, b, x.Pos())
		v := e.load(st, a)
		if v.Clo == nil && len(v.Tuple) == 0 && !isAtom(v.T) {
			v.T = e.sc.define(fc.fn.Name()+"_"+x.Name(), v.S, v.T)
		}
		v.GoT = x.Type()
		fc.regs[x] = v
		e.loadFacts(st, v, x.Type())
	case token.NOT:
		e.defineReg(fc, x, "Bool", not(e.val(fc, x.X).T))
	case token.SUB:
		v := e.val(fc, x.X)
		e.defineReg(fc, x, v.S, "(- "+v.T+")")
	case token.XOR:
		v := e.val(fc, x.X)
		e.note("bitwise complement abstracted (uninterpreted)")
		e.sc.declareFun("bitnot", []string{"Int"}, "Int")
		e.defineReg(fc, x, "Int", "(bitnot "+v.T+")")
	case token.ARROW:
		e.reject("channel receive")
	default:
		e.reject("unary op " + x.Op.String())
	}
}

func isStringT(t types.Type) bool {
	b, ok := t.Underlying().(*types.Basic)
	return ok && b.Info()&types.IsString != 0
}
func isFloatT(t types.Type) bool {
	b, ok := t.Underlying().(*types.Basic)
	return ok && b.Info()&types.IsFloat != 0
}
func isUnsignedT(t types.Type) bool {
	b, ok := t.Underlying().(*types.Basic)
	return ok && b.Info()&types.IsUnsigned != 0
}

func (e *Engine) cmpEq(a, b Val, t types.Type) string {
	if a.Addr != nil || b.Addr != nil {
		return eq(e.ptrTerm(a), e.ptrTerm(b))
	}
	if _, ok := t.Underlying().(*types.Slice); ok {
		// only comparison with nil is legal
		if b.T == "(mk_slice 0 0 0 0)" {
			return "(= (s_ref " + a.T + ") 0)"
		}
		if a.T == "(mk_slice 0 0 0 0)" {
			return "(= (s_ref " + b.T + ") 0)"
		}
	}
	return eq(a.T, b.T)
}

func (e *Engine) execBinOp(fc *fnCtx, b *ssa.BasicBlock, st *State, x *ssa.BinOp) {
	l, r := e.val(fc, x.X), e.val(fc, x.Y)
	t := x.X.Type()
	rs := e.sortOf(x.Type())
	var term string
	switch x.Op {
	case token.EQL:
		term = e.cmpEq(l, r, t)
	case token.NEQ:
		term = not(e.cmpEq(l, r, t))
	case token.LSS, token.LEQ, token.GTR, token.GEQ:
		if isStringT(t) {
			switch x.Op {
			case token.LSS:
				term = "(str.< " + l.T + " " + r.T + ")"
			case token.LEQ:
				term = "(str.<= " + l.T + " " + r.T + ")"
			case token.GTR:
				term = "(str.< " + r.T + " " + l.T + ")"
			case token.GEQ:
				term = "(str.<= " + r.T + " " + l.T + ")"
			}
		} else {
			op := map[token.Token]string{token.LSS: "<", token.LEQ: "<=", token.GTR: ">", token.GEQ: ">="}[x.Op]
			term = "(" + op + " " + l.T + " " + r.T + ")"
		}
	case token.ADD:
		if isStringT(t) {
			term = "(str.++ " + l.T + " " + r.T + ")"
		} else {
			term = "(+ " + l.T + " " + r.T + ")"
		}
	case token.SUB:
		term = "(- " + l.T + " " + r.T + ")"
		if isUnsignedT(t) {
			e.note("unsigned subtraction treated as mathematical (no wrap-around)")
		}
	case token.MUL:
		term = "(* " + l.T + " " + r.T + ")"
	case token.QUO:
		if isFloatT(t) {
			term = "(/ " + l.T + " " + r.T + ")"
		} else {
			e.addObl(fc.fn, "div-zero", "", x.Pos(), st.Reach, "(not (= "+r.T+" 0))")
			term = "(godiv " + l.T + " " + r.T + ")"
		}
	case token.REM:
		e.addObl(fc.fn, "div-zero", "", x.Pos(), st.Reach, "(not (= "+r.T+" 0))")
		term = "(gomod " + l.T + " " + r.T + ")"
	case token.AND:
		term = "(bitand " + l.T + " " + r.T + ")"
	case token.OR:
		term = "(bitor " + l.T + " " + r.T + ")"
	case token.XOR:
		term = "(bitxor " + l.T + " " + r.T + ")"
	case token.AND_NOT:
		term = "(bitandnot " + l.T + " " + r.T + ")"
	case token.SHL:
		term = "(shl " + l.T + " " + r.T + ")"
	case token.SHR:
		term = "(shr " + l.T + " " + r.T + ")"
	default:
		e.reject("binary op " + x.Op.String())
	}
	e.defineReg(fc, x, rs, term)
}

func (e *Engine) execIndexAddr(fc *fnCtx, b *ssa.BasicBlock, st *State, x *ssa.IndexAddr) {
	xv := e.val(fc, x.X)
	iv := e.val(fc, x.Index)
	txt := e.srcText(x.Pos(), "index")
	switch u := x.X.Type().Underlying().(type) {
	case *types.Slice:
		e.addObl(fc.fn, "index", txt, x.Pos(), st.Reach, and("(<= 0 "+iv.T+")", "(< "+iv.T+" (s_len "+xv.T+"))"))
		hn, hs := e.sliceHeapName(u.Elem())
		fc.regs[x] = Val{S: "Int", Addr: &Addr{Kind: aElem, Ref: "(s_ref " + xv.T + ")", Idx: "(ix (s_off " + xv.T + ") " + iv.T + ")", Heap: hn, HSort: hs, ElemT: u.Elem()}, GoT: x.Type()}
	case *types.Pointer:
		arr := u.Elem().Underlying().(*types.Array)
		if _, isConst := x.Index.(*ssa.Const); !isConst || txt != "" {
			e.addObl(fc.fn, "index", txt, x.Pos(), st.Reach, and("(<= 0 "+iv.T+")", fmt.Sprintf("(< %s %d)", iv.T, arr.Len())))
		}
		if xv.Addr != nil {
			na := *xv.Addr
			na.Path = append(append([]pathStep(nil), xv.Addr.Path...), pathStep{Field: -1, Idx: iv.T, T: xv.Addr.ElemT})
			na.ElemT = arr.Elem()
			fc.regs[x] = Val{S: "Int", Addr: &na, GoT: x.Type()}
			return
		}
		e.nilCheck(fc, st, xv.T, b, x.Pos(), x.X)
		hn, hs := e.sliceHeapName(arr.Elem())
		fc.regs[x] = Val{S: "Int", Addr: &Addr{Kind: aElem, Ref: xv.T, Idx: iv.T, Heap: hn, HSort: hs, ElemT: arr.Elem()}, GoT: x.Type()}
	default:
		e.reject(fmt.Sprintf("IndexAddr on %s", x.X.Type()))
	}
}

func (e *Engine) mapLoad(st *State, m *types.Map, ref, key string) (val, dom string) {
	vh, vs, dh, ds := e.mapHeapNames(m)
	dom = sel(sel(e.heapIn(st, dh, ds), ref), key)
	val = ite(dom, sel(sel(e.heapIn(st, vh, vs), ref), key), e.zero(m.Elem()))
	return
}

func (e *Engine) mapStore(st *State, m *types.Map, ref, key, v string) {
	vh, vs, dh, ds := e.mapHeapNames(m)
	hv := e.heapIn(st, vh, vs)
	e.setHeapIn(st, vh, vs, store(hv, ref, store(sel(hv, ref), key, v)))
	hd := e.heapIn(st, dh, ds)
	e.setHeapIn(st, dh, ds, store(hd, ref, store(sel(hd, ref), key, "true")))
	e.logStore(vh, ref)
	e.logStore(dh, ref)
}

func (e *Engine) mapLenTerm(st *State, m *types.Map, ref string) string {
	_, _, dh, ds := e.mapHeapNames(m)
	ks := e.sortOf(m.Key())
	f := "maplen_" + sanitize(ks)
	if !e.sc.declared[f] {
		e.sc.declareFun(f, []string{"(Array " + ks + " Bool)"}, "Int")
		e.sc.assert("(= (" + f + " ((as const (Array " + ks + " Bool)) false)) 0)")
		e.sc.assert("(forall ((d (Array " + ks + " Bool))) (! (>= (" + f + " d) 0) :pattern ((" + f + " d))))")
	}
	return "(" + f + " " + sel(e.heapIn(st, dh, ds), ref) + ")"
}

func (e *Engine) execLookup(fc *fnCtx, b *ssa.BasicBlock, st *State, x *ssa.Lookup) {
	xv := e.val(fc, x.X)
	kv := e.val(fc, x.Index)
	if m, ok := x.X.Type().Underlying().(*types.Map); ok {
		val, dom := e.mapLoad(st, m, xv.T, kv.T)
		// reading a nil map yields the zero value
		dom = and("(not (= "+xv.T+" 0))", dom)
		vs := e.sortOf(m.Elem())
		v := Val{T: e.sc.define(fc.fn.Name()+"_"+x.Name(), vs, ite(dom, val, e.zero(m.Elem()))), S: vs, GoT: m.Elem()}
		// a value read from a map is as well-formed as any value read from memory
		e.loadFacts(st, v, m.Elem())
		if x.CommaOk {
			okv := Val{T: e.sc.define(fc.fn.Name()+"_"+x.Name()+"ok", "Bool", dom), S: "Bool"}
			fc.regs[x] = Val{S: "Tuple", Tuple: []Val{v, okv}, GoT: x.Type()}
		} else {
			fc.regs[x] = v
		}
		return
	}
	// string index
	e.addObl(fc.fn, "index", e.srcText(x.Pos(), "index"), x.Pos(), st.Reach, and("(<= 0 "+kv.T+")", "(< "+kv.T+" (str.len "+xv.T+"))"))
	r := e.defineReg(fc, x, "Int", "(str.to_code (str.at "+xv.T+" "+kv.T+"))")
	e.assume(st, and("(>= "+r.T+" 0)", "(<= "+r.T+" 255)"))
}

func (e *Engine) execSlice(fc *fnCtx, b *ssa.BasicBlock, st *State, x *ssa.Slice) {
	xv := e.val(fc, x.X)
	txt := e.srcText(x.Pos(), "slice")
	opt := func(v ssa.Value, def string) string {
		if v == nil {
			return def
		}
		return e.val(fc, v).T
	}
	switch u := x.X.Type().Underlying().(type) {
	case *types.Basic: // string
		ln := "(str.len " + xv.T + ")"
		lo, hi := opt(x.Low, "0"), opt(x.High, ln)
		if x.Low != nil || x.High != nil {
			e.addObl(fc.fn, "slice", txt, x.Pos(), st.Reach, and("(<= 0 "+lo+")", "(<= "+lo+" "+hi+")", "(<= "+hi+" "+ln+")"))
		}
		e.defineReg(fc, x, "String", "(str.substr "+xv.T+" "+lo+" (- "+hi+" "+lo+"))")
	case *types.Slice:
		lo, hi := opt(x.Low, "0"), opt(x.High, "(s_len "+xv.T+")")
		mx := opt(x.Max, "(s_cap "+xv.T+")")
		if x.Low != nil || x.High != nil || x.Max != nil {
			e.addObl(fc.fn, "slice", txt, x.Pos(), st.Reach, and("(<= 0 "+lo+")", "(<= "+lo+" "+hi+")", "(<= "+hi+" "+mx+")", "(<= "+mx+" (s_cap "+xv.T+"))"))
		}
		e.defineReg(fc, x, "Slice", "(mk_slice (s_ref "+xv.T+") (+ (s_off "+xv.T+") "+lo+") (- "+hi+" "+lo+") (- "+mx+" "+lo+"))")
	case *types.Pointer:
		arr := u.Elem().Underlying().(*types.Array)
		n := fmt.Sprint(arr.Len())
		lo, hi := opt(x.Low, "0"), opt(x.High, n)
		if x.Low != nil || x.High != nil {
			e.addObl(fc.fn, "slice", txt, x.Pos(), st.Reach, and("(<= 0 "+lo+")", "(<= "+lo+" "+hi+")", "(<= "+hi+" "+n+")"))
		}
		var ref string
		if xv.Addr != nil {
			e.note("slice of a local array cell (copied to a fresh backing array)")
			ref = e.newRef(st, "arr")
			cur := e.load(st, xv.Addr)
			hn, hs := e.sliceHeapName(arr.Elem())
			e.setHeapIn(st, hn, hs, store(e.heapIn(st, hn, hs), ref, cur.T))
		} else {
			ref = xv.T
		}
		e.defineReg(fc, x, "Slice", "(mk_slice "+ref+" "+lo+" (- "+hi+" "+lo+") (- "+n+" "+lo+"))")
	default:
		e.reject(fmt.Sprintf("Slice of %s", x.X.Type()))
	}
}

func (e *Engine) execConvert(fc *fnCtx, st *State, x *ssa.Convert) {
	v := e.val(fc, x.X)
	from, to := x.X.Type().Underlying(), x.Type().Underlying()
	fb, fok := from.(*types.Basic)
	tb, tok := to.(*types.Basic)
	switch {
	case fok && tok && fb.Info()&types.IsInteger != 0 && tb.Info()&types.IsInteger != 0:
		if narrows(fb, tb) {
			e.note("narrowing integer conversion treated as mathematical identity")
		}
		v.GoT = x.Type()
		fc.regs[x] = v
	case fok && tok && fb.Info()&types.IsInteger != 0 && tb.Info()&types.IsString != 0:
		rs := e.sc.declareConst("runestr", "String")
		e.sc.assert("(str.in_re " + rs + " ((_ re.loop 2 4) (re.range \"\\u{80}\" \"\\u{ff}\")))")
		e.defineReg(fc, x, "String", ite("(and (>= "+v.T+" 0) (< "+v.T+" 128))", "(str.from_code "+v.T+")", rs))
	case fok && tok && fb.Info()&types.IsString != 0 && tb.Info()&types.IsString != 0:
		v.GoT = x.Type()
		fc.regs[x] = v
	case fok && tok && fb.Info()&types.IsInteger != 0 && tb.Info()&types.IsFloat != 0:
		e.defineReg(fc, x, "Real", "(to_real "+v.T+")")
	case fok && tok && fb.Info()&types.IsFloat != 0 && tb.Info()&types.IsInteger != 0:
		e.defineReg(fc, x, "Int", "(to_int "+v.T+")")
	case fok && tok && fb.Info()&types.IsFloat != 0 && tb.Info()&types.IsFloat != 0:
		v.GoT = x.Type()
		fc.regs[x] = v
	default:
		// string <-> []byte / []rune, unsafe pointers, ...
		nv := e.freshVal("conv", x.Type())
		if fok && fb.Info()&types.IsString != 0 {
			if sl, ok := to.(*types.Slice); ok {
				if eb, ok := sl.Elem().Underlying().(*types.Basic); ok && eb.Kind() == types.Uint8 {
					e.assume(st, "(= (s_len "+nv.T+") (str.len "+v.T+"))")
				} else {
					e.assume(st, "(<= (s_len "+nv.T+") (str.len "+v.T+"))")
				}
				e.assume(st, and("(> (s_ref "+nv.T+") "+e.allocCounter(st)+")", "(= (s_off "+nv.T+") 0)"))
				st.Heaps[allocHeap] = e.sc.define("ref_conv", "Int", "(s_ref "+nv.T+")")
			}
		}
		if tok && tb.Info()&types.IsString != 0 {
			if sl, ok := from.(*types.Slice); ok {
				if eb, ok := sl.Elem().Underlying().(*types.Basic); ok && eb.Kind() == types.Uint8 {
					e.assume(st, "(= (str.len "+nv.T+") (s_len "+v.T+"))")
				}
			}
		}
		e.note("string/[]byte conversion abstracted to a fresh value with length relation")
		fc.regs[x] = nv
	}
}

func narrows(from, to *types.Basic) bool {
	size := func(b *types.Basic) int {
		switch b.Kind() {
		case types.Int8, types.Uint8:
			return 1
		case types.Int16, types.Uint16:
			return 2
		case types.Int32, types.Uint32:
			return 4
		}
		return 8
	}
	return size(to) < size(from)
}

func (e *Engine) execTypeAssert(fc *fnCtx, b *ssa.BasicBlock, st *State, x *ssa.TypeAssert) {
	xv := e.val(fc, x.X)
	if types.IsInterface(x.AssertedType) {
		// succeeds iff the value is not nil and its dynamic type implements the interface
		okc := e.sc.define("taok", "Bool", e.implementsTerm(xv.T, x.AssertedType))
		if x.CommaOk {
			fc.regs[x] = Val{S: "Tuple", Tuple: []Val{{T: ite(okc, xv.T, "0"), S: "Int", GoT: x.AssertedType}, {T: okc, S: "Bool"}}, GoT: x.Type()}
		} else {
			e.addObl(fc.fn, "assert-type", e.srcText(x.Pos(), "assert"), x.Pos(), st.Reach, okc)
			fc.regs[x] = Val{T: xv.T, S: "Int", GoT: x.AssertedType}
		}
		return
	}
	_, unbox := e.boxFns(x.AssertedType)
	tag := e.typeTag(x.AssertedType)
	okT := "(= (dyntype " + xv.T + ") " + tag + ")"
	s := e.sortOf(x.AssertedType)
	val := Val{T: e.sc.define(fc.fn.Name()+"_"+x.Name(), s, "("+unbox+" "+xv.T+")"), S: s, GoT: x.AssertedType}
	if x.CommaOk {
		okv := e.sc.define("taok", "Bool", okT)
		val.T = ite(okv, val.T, e.zero(x.AssertedType))
		fc.regs[x] = Val{S: "Tuple", Tuple: []Val{val, {T: okv, S: "Bool"}}, GoT: x.Type()}
		return
	}
	e.addObl(fc.fn, "assert-type", e.srcText(x.Pos(), "assert"), x.Pos(), st.Reach, okT)
	fc.regs[x] = val
}

func (e *Engine) execNext(fc *fnCtx, b *ssa.BasicBlock, st *State, x *ssa.Next) {
	rng := x.Iter.(*ssa.Range)
	coll := e.val(fc, rng)
	if x.IsString {
		pos := st.Cells[rng].T
		ln := "(str.len " + coll.T + ")"
		okv := e.sc.define("nextok", "Bool", "(< "+pos+" "+ln+")")
		by := "(str.to_code (str.at " + coll.T + " " + pos + "))"
		w := e.sc.declareConst("runew", "Int")
		r := e.sc.declareConst("rune", "Int")
		e.sc.assert(implies(and(st.Reach, okv), and(
			implies("(< "+by+" 128)", and("(= "+r+" "+by+")", "(= "+w+" 1)")),
			implies("(>= "+by+" 128)", and("(>= "+r+" 128)", "(>= "+w+" 1)", "(<= "+w+" 4)")),
			"(<= (+ "+pos+" "+w+") "+ln+")", "(>= "+pos+" 0)")))
		e.note("range over string: UTF-8 decoding abstracted (ASCII exact, otherwise rune >= 0x80 and width 1..4)")
		st.Cells[rng] = Val{T: e.sc.define("strpos", "Int", ite(okv, "(+ "+pos+" "+w+")", pos)), S: "Int"}
		fc.regs[x] = Val{S: "Tuple", Tuple: []Val{{T: okv, S: "Bool"}, {T: pos, S: "Int"}, {T: r, S: "Int"}}, GoT: x.Type()}
		return
	}
	m, ok := rng.X.Type().Underlying().(*types.Map)
	if !ok {
		e.reject("range over " + rng.X.Type().String())
	}
	okv := e.sc.declareConst("nextok", "Bool")
	k := e.freshVal("mapkey", m.Key())
	val, dom := e.mapLoad(st, m, coll.T, k.T)
	visited := st.Cells[rng]
	ks := e.sortOf(m.Key())
	if visited.S != "(Array "+ks+" Bool)" {
		visited = Val{T: e.sc.declareConst("visited", "(Array "+ks+" Bool)"), S: "(Array " + ks + " Bool)"}
	}
	// each step yields a present key that was not visited before; the iteration ends only when every present key was visited
	e.sc.assert(implies(and(st.Reach, okv), and(dom, "(not (= "+coll.T+" 0))", not(sel(visited.T, k.T)))))
	_, _, dh, ds := e.mapHeapNames(m)
	domArr := sel(e.heapIn(st, dh, ds), coll.T)
	e.sc.assert(implies(and(st.Reach, not(okv)), "(forall ((kk "+ks+")) (! (=> (and (not (= "+coll.T+" 0)) (select "+domArr+" kk)) (select "+visited.T+" kk)) :pattern ((select "+visited.T+" kk)) :pattern ((select "+domArr+" kk))))"))
	v := Val{T: e.sc.define("mapval", e.sortOf(m.Elem()), val), S: e.sortOf(m.Elem()), GoT: m.Elem()}
	e.note("map iteration: every present key exactly once in arbitrary order (ghost visited set); the ranged map's key set is assumed not to change during the loop")
	st.Cells[rng] = Val{T: e.sc.define("visited", visited.S, ite(okv, store(visited.T, k.T, "true"), visited.T)), S: visited.S}
	fc.regs[x] = Val{S: "Tuple", Tuple: []Val{{T: okv, S: "Bool"}, k, v}, GoT: x.Type()}
}

// loadFacts: invariants of every reachable state for a value just read from memory:
// references are at most the allocation counter, slices are well-formed, sized integers are in range.
func (e *Engine) loadFacts(st *State, v Val, t types.Type) {
	if v.Clo != nil || len(v.Tuple) > 0 || v.Addr != nil || t == nil {
		return
	}
	key := v.T + "@" + st.Heaps[allocHeap] + st.Reach
	if e.factDone == nil {
		e.factDone = map[string]bool{}
	}
	if e.factDone[key] {
		return
	}
	e.factDone[key] = true
	switch u := t.Underlying().(type) {
	case *types.Pointer, *types.Map, *types.Chan, *types.Signature, *types.Interface:
		e.sc.assert(implies(st.Reach, "(<= "+v.T+" "+e.allocCounter(st)+")"))
		if _, isI := u.(*types.Interface); !isI {
			e.sc.assert(implies(st.Reach, "(>= "+v.T+" 0)"))
		}
	case *types.Slice:
		e.rangeFacts(st.Reach, v, t)
		e.sc.assert(implies(st.Reach, "(<= (s_ref "+v.T+") "+e.allocCounter(st)+")"))
	case *types.Basic:
		e.rangeFacts(st.Reach, v, t)
	}
}

// implementsTerm: "x is a non-nil interface value whose dynamic type implements the interface type it".
func (e *Engine) implementsTerm(x string, it types.Type) string {
	fn := "implements_" + sanitize(types.TypeString(it, nil))
	e.sc.declareFun(fn, []string{"Int"}, "Bool")
	return "(and (not (= " + x + " 0)) (" + fn + " (dyntype " + x + ")))"
}
