package main

// Symbolic execution of go/ssa (naive form) into an SMT script: state merging at joins, loops cut at
// invariants, calls replaced by contracts / trusted stdlib contracts / inlining / havoc.

import (
	"fmt"
	"go/ast"
	"go/constant"
	"go/token"
	"go/types"
	"regexp"
	"sort"
	"strconv"
	"strings"

	"golang.org/x/tools/go/ssa"
)

type loopInfo struct {
	header  *ssa.BasicBlock
	body    map[*ssa.BasicBlock]bool
	ordinal int
}

type retState struct {
	st      *State
	results []Val
}

type fnCtx struct {
	fn       *ssa.Function
	regs     map[ssa.Value]Val
	contract *Contract
	entry    *State
	params   []Val
	free     []Val
	loops    map[*ssa.BasicBlock]*loopInfo
	order    []*ssa.BasicBlock
	returns  []retState
	defers   []*ssa.Defer
	nonnil   map[string][]*ssa.BasicBlock
	depth    int
	edges    map[[2]int]string
	allowed  map[string][]string
	keyed    map[loopKeyRes][]Clause
	callOcc  map[*ssa.Call]int
	renames  map[string]string // baseline local name -> current local name (see localRenames)
	retOcc   map[*ssa.Return]int
	env      *SpecEnv // for invariants (top-level function only)
}

func (e *Engine) newFnCtx(fn *ssa.Function) *fnCtx {
	fc := &fnCtx{fn: fn, regs: map[ssa.Value]Val{}, loops: map[*ssa.BasicBlock]*loopInfo{}, nonnil: map[string][]*ssa.BasicBlock{}, edges: map[[2]int]string{}}
	e.computeLoops(fc)
	return fc
}

func (e *Engine) computeLoops(fc *fnCtx) {
	fn := fc.fn
	if len(fn.Blocks) == 0 {
		return
	}
	isBack := func(p, h *ssa.BasicBlock) bool { return h.Dominates(p) }
	// reverse postorder ignoring back edges
	seen := map[*ssa.BasicBlock]bool{}
	var post []*ssa.BasicBlock
	var dfs func(b *ssa.BasicBlock)
	dfs = func(b *ssa.BasicBlock) {
		seen[b] = true
		for i := len(b.Succs) - 1; i >= 0; i-- {
			s := b.Succs[i]
			if isBack(b, s) || seen[s] {
				continue
			}
			dfs(s)
		}
		post = append(post, b)
	}
	dfs(fn.Blocks[0])
	for i := len(post) - 1; i >= 0; i-- {
		fc.order = append(fc.order, post[i])
	}
	var headers []*ssa.BasicBlock
	for _, b := range fn.Blocks {
		if !seen[b] {
			continue
		}
		for _, s := range b.Succs {
			if isBack(b, s) {
				li := fc.loops[s]
				if li == nil {
					li = &loopInfo{header: s, body: map[*ssa.BasicBlock]bool{s: true}}
					fc.loops[s] = li
					headers = append(headers, s)
				}
				// natural loop of back edge b -> s
				work := []*ssa.BasicBlock{b}
				for len(work) > 0 {
					x := work[len(work)-1]
					work = work[:len(work)-1]
					if li.body[x] {
						continue
					}
					li.body[x] = true
					for _, p := range x.Preds {
						if seen[p] {
							work = append(work, p)
						}
					}
				}
			}
		}
	}
	// loop ordinals in source order: by position of the first instruction with a position, fall back to block index
	sort.Slice(headers, func(i, j int) bool { return loopPos(headers[i]) < loopPos(headers[j]) })
	for i, h := range headers {
		fc.loops[h].ordinal = i
	}
	// irreducible flow check: every edge into a loop body from outside must target the header
	for _, li := range fc.loops {
		for b := range li.body {
			if b == li.header {
				continue
			}
			for _, p := range b.Preds {
				if seen[p] && !li.body[p] {
					e.reject("irreducible control flow in " + fn.String())
				}
			}
		}
	}
}

func loopPos(h *ssa.BasicBlock) int {
	// source-order key: block index is creation order, which follows source order for loops
	return h.Index
}

// ---------- constants and values ----------

func (e *Engine) constVal(c *ssa.Const) Val {
	t := c.Type()
	s := e.sortOf(t)
	if c.Value == nil {
		return Val{T: e.zero(t), S: s, GoT: t}
	}
	switch c.Value.Kind() {
	case constant.Bool:
		if constant.BoolVal(c.Value) {
			return Val{T: "true", S: "Bool", GoT: t}
		}
		return Val{T: "false", S: "Bool", GoT: t}
	case constant.String:
		return Val{T: smtString(constant.StringVal(c.Value)), S: "String", GoT: t}
	case constant.Int:
		str := c.Value.ExactString()
		if s == "Real" {
			if strings.HasPrefix(str, "-") {
				return Val{T: "(- " + str[1:] + ".0)", S: s, GoT: t}
			}
			return Val{T: str + ".0", S: s, GoT: t}
		}
		if strings.HasPrefix(str, "-") {
			return Val{T: "(- " + str[1:] + ")", S: "Int", GoT: t}
		}
		return Val{T: str, S: "Int", GoT: t}
	case constant.Float:
		f, _ := constant.Float64Val(c.Value)
		if s == "Int" {
			return Val{T: intLit(int64(f)), S: "Int", GoT: t}
		}
		str := fmt.Sprintf("%f", f)
		if f < 0 {
			str = "(- " + fmt.Sprintf("%f", -f) + ")"
		}
		return Val{T: str, S: "Real", GoT: t}
	}
	return Val{T: e.zero(t), S: s, GoT: t}
}

func (e *Engine) val(fc *fnCtx, v ssa.Value) Val {
	switch x := v.(type) {
	case *ssa.Const:
		return e.constVal(x)
	case *ssa.Global:
		t := deref(x.Type())
		name := "G_" + x.Pkg.Pkg.Path() + "." + x.Name()
		return Val{S: "Int", Addr: &Addr{Kind: aGlobal, Heap: name, HSort: e.sortOf(t), ElemT: t}, GoT: x.Type()}
	case *ssa.Function:
		return Val{T: "0", S: "Int", Clo: &Closure{Fn: x}, GoT: x.Type()}
	case *ssa.Builtin:
		return Val{T: "0", S: "Int"}
	}
	if r, ok := fc.regs[v]; ok {
		return r
	}
	e.reject(fmt.Sprintf("value %s (%T) used before definition in %s", v.Name(), v, fc.fn))
	return Val{}
}

// ---------- addresses ----------

// addrOf turns a pointer-typed SSA value into a structural address, emitting a nil check when it is a plain pointer.
func (e *Engine) addrOf(fc *fnCtx, st *State, v ssa.Value, blk *ssa.BasicBlock, pos token.Pos) *Addr {
	pv := e.val(fc, v)
	if pv.Addr != nil {
		return pv.Addr
	}
	elem := deref(v.Type())
	e.nilCheck(fc, st, pv.T, blk, pos, v)
	return &Addr{Kind: aPtr, Ref: pv.T, ElemT: elem}
}

func (e *Engine) nilCheck(fc *fnCtx, st *State, term string, blk *ssa.BasicBlock, pos token.Pos, v ssa.Value) {
	if term == "" {
		return
	}
	for _, b := range fc.nonnil[term] {
		if b == blk || (blk != nil && b.Dominates(blk)) {
			return
		}
	}
	fc.nonnil[term] = append(fc.nonnil[term], blk)
	if _, ok := v.(*ssa.Alloc); ok {
		return
	}
	txt := e.srcText(pos, "sel")
	e.addObl(fc.fn, "nilderef", txt, pos, st.Reach, "(not (= "+term+" 0))")
}

func (e *Engine) applyPath(base string, baseT types.Type, path []pathStep) (string, types.Type) {
	t := baseT
	cur := base
	for _, ps := range path {
		if ps.Field >= 0 {
			u, _ := isStruct(t)
			srt := e.structSort(t, u)
			cur = "(" + e.fieldSel(srt, u, ps.Field) + " " + cur + ")"
			t = u.Field(ps.Field).Type()
		} else {
			arr := t.Underlying().(*types.Array)
			cur = sel(cur, ps.Idx)
			t = arr.Elem()
		}
	}
	return cur, t
}

// updatePath returns base with the location at path replaced by v.
func (e *Engine) updatePath(base string, baseT types.Type, path []pathStep, v string) string {
	if len(path) == 0 {
		return v
	}
	ps := path[0]
	if ps.Field >= 0 {
		u, _ := isStruct(baseT)
		srt := e.structSort(baseT, u)
		var fs []string
		for i := 0; i < u.NumFields(); i++ {
			cur := "(" + e.fieldSel(srt, u, i) + " " + base + ")"
			if i == ps.Field {
				cur = e.updatePath(cur, u.Field(i).Type(), path[1:], v)
			}
			fs = append(fs, cur)
		}
		return "(mk_" + srt + " " + strings.Join(fs, " ") + ")"
	}
	arr := baseT.Underlying().(*types.Array)
	inner := e.updatePath(sel(base, ps.Idx), arr.Elem(), path[1:], v)
	return store(base, ps.Idx, inner)
}

// baseType returns the Go type of the location before applying Path.
func (a *Addr) baseType() types.Type {
	if len(a.Path) == 0 {
		return a.ElemT
	}
	return a.Path[0].T
}

func (e *Engine) load(st *State, a *Addr) Val {
	t := a.ElemT
	s := e.sortOf(t)
	var base string
	bt := a.baseType()
	switch a.Kind {
	case aCell:
		c, ok := st.Cells[a.Cell.(ssa.Value)]
		if !ok {
			// cell not initialised on this path (can happen for per-iteration variables): zero value
			c = Val{T: e.zero(bt), S: e.sortOf(bt)}
		}
		if len(a.Path) == 0 {
			c.GoT = t
			return c
		}
		base = c.T
	case aField:
		base = sel(e.heapIn(st, a.Heap, a.HSort), a.Ref)
	case aElem:
		base = sel(sel(e.heapIn(st, a.Heap, a.HSort), a.Ref), a.Idx)
	case aGlobal:
		base = e.heapIn(st, a.Heap, a.HSort)
		e.sentinelFacts(a.Heap, base)
	case aPtr:
		if u, ok := isStruct(bt); ok {
			base = e.loadStruct(st, a.Ref, bt, u)
		} else {
			hn, hs := e.ptrHeapName(bt)
			base = sel(e.heapIn(st, hn, hs), a.Ref)
		}
		// the pointer may be the address of a struct field whose address was taken in this function
		for _, c := range e.interiorCands(bt) {
			inner, _ := e.applyPath(sel(e.heapIn(st, c.heap, c.sort), "("+c.owner+" "+a.Ref+")"), c.baseT, c.path)
			base = ite("(= (pkind "+a.Ref+") "+fmt.Sprint(c.id)+")", inner, base)
		}
	}
	cur, _ := e.applyPath(base, bt, a.Path)
	out := Val{T: cur, S: s, GoT: t}
	if a.Kind == aPtr && len(a.Path) == 0 {
		if c, ok := st.Clos[a.Ref]; ok {
			out.Clo = c
		}
	}
	return out
}

func (e *Engine) loadStruct(st *State, ref string, t types.Type, u *types.Struct) string {
	srt := e.structSort(t, u)
	if u.NumFields() == 0 {
		return "(mk_" + srt + " 0)"
	}
	var fs []string
	for i := 0; i < u.NumFields(); i++ {
		hn, hs := e.fieldHeapName(t, u, i)
		fs = append(fs, sel(e.heapIn(st, hn, hs), ref))
	}
	return "(mk_" + srt + " " + strings.Join(fs, " ") + ")"
}

func (e *Engine) storeStruct(st *State, ref string, t types.Type, u *types.Struct, v string) {
	srt := e.structSort(t, u)
	for i := 0; i < u.NumFields(); i++ {
		hn, hs := e.fieldHeapName(t, u, i)
		e.setHeapIn(st, hn, hs, store(e.heapIn(st, hn, hs), ref, "("+e.fieldSel(srt, u, i)+" "+v+")"))
		e.logStore(hn, ref)
	}
}

func (e *Engine) logStore(heap, ref string) {
	if e.storeLog != nil {
		*e.storeLog = append(*e.storeLog, storeRec{heap, ref})
	}
}

func (e *Engine) storeTo(st *State, a *Addr, v Val) {
	bt := a.baseType()
	if a.Kind == aPtr && len(a.Path) == 0 {
		if _, isFn := bt.Underlying().(*types.Signature); isFn {
			nc := map[string]*Closure{}
			for k, c := range st.Clos {
				nc[k] = c
			}
			if v.Clo != nil {
				nc[a.Ref] = v.Clo
			} else {
				delete(nc, a.Ref)
			}
			st.Clos = nc
		}
	}
	switch a.Kind {
	case aCell:
		key := a.Cell.(ssa.Value)
		if len(a.Path) == 0 {
			st.Cells[key] = v
			return
		}
		c, ok := st.Cells[key]
		if !ok {
			c = Val{T: e.zero(bt), S: e.sortOf(bt)}
		}
		nt := e.sc.define("cell", c.S, e.updatePath(c.T, bt, a.Path, v.T))
		st.Cells[key] = Val{T: nt, S: c.S, GoT: bt}
	case aField:
		h := e.heapIn(st, a.Heap, a.HSort)
		nv := v.T
		if len(a.Path) > 0 {
			nv = e.updatePath(sel(h, a.Ref), bt, a.Path, v.T)
		}
		e.setHeapIn(st, a.Heap, a.HSort, store(h, a.Ref, nv))
		e.logStore(a.Heap, a.Ref)
	case aElem:
		h := e.heapIn(st, a.Heap, a.HSort)
		arr := sel(h, a.Ref)
		nv := v.T
		if len(a.Path) > 0 {
			nv = e.updatePath(sel(arr, a.Idx), bt, a.Path, v.T)
		}
		e.setHeapIn(st, a.Heap, a.HSort, store(h, a.Ref, store(arr, a.Idx, nv)))
		e.logStore(a.Heap, a.Ref)
	case aGlobal:
		h := e.heapIn(st, a.Heap, a.HSort)
		nv := v.T
		if len(a.Path) > 0 {
			nv = e.updatePath(h, bt, a.Path, v.T)
		}
		e.setHeapIn(st, a.Heap, a.HSort, nv)
	case aPtr:
		cands := e.interiorCands(bt)
		if len(cands) > 0 {
			// conditional store: the pointer may address a struct field
			full := v.T
			if len(a.Path) > 0 {
				cur := e.load(st, &Addr{Kind: aPtr, Ref: a.Ref, ElemT: bt})
				full = e.updatePath(cur.T, bt, a.Path, v.T)
			}
			full = e.sc.define("sv", e.sortOf(bt), full)
			isPlain := "true"
			for _, c := range cands {
				cond := "(= (pkind " + a.Ref + ") " + fmt.Sprint(c.id) + ")"
				h := e.heapIn(st, c.heap, c.sort)
				own := "(" + c.owner + " " + a.Ref + ")"
				e.setHeapIn(st, c.heap, c.sort, ite(cond, store(h, own, e.updatePath(sel(h, own), c.baseT, c.path, full)), h))
				isPlain = and(isPlain, not(cond))
			}
			if u, ok := isStruct(bt); ok {
				srt := e.structSort(bt, u)
				for i := 0; i < u.NumFields(); i++ {
					hn, hs := e.fieldHeapName(bt, u, i)
					h := e.heapIn(st, hn, hs)
					e.setHeapIn(st, hn, hs, ite(isPlain, store(h, a.Ref, "("+e.fieldSel(srt, u, i)+" "+full+")"), h))
				}
			} else {
				hn, hs := e.ptrHeapName(bt)
				h := e.heapIn(st, hn, hs)
				e.setHeapIn(st, hn, hs, ite(isPlain, store(h, a.Ref, full), h))
			}
			return
		}
		if u, ok := isStruct(bt); ok {
			nv := v.T
			if len(a.Path) > 0 {
				nv = e.updatePath(e.loadStruct(st, a.Ref, bt, u), bt, a.Path, v.T)
			}
			nv = e.sc.define("sv", e.sortOf(bt), nv)
			e.storeStruct(st, a.Ref, bt, u, nv)
		} else {
			hn, hs := e.ptrHeapName(bt)
			h := e.heapIn(st, hn, hs)
			nv := v.T
			if len(a.Path) > 0 {
				nv = e.updatePath(sel(h, a.Ref), bt, a.Path, v.T)
			}
			e.setHeapIn(st, hn, hs, store(h, a.Ref, nv))
			e.logStore(hn, a.Ref)
		}
	}
}

// ptrTerm gives the numeric pointer for a value used as data.
func (e *Engine) ptrTerm(v Val) string {
	if v.Addr == nil {
		return v.T
	}
	a := v.Addr
	switch a.Kind {
	case aPtr:
		if len(a.Path) == 0 {
			return a.Ref
		}
	case aElem:
		// pointer to slice element: abstract interior pointer
		e.note("interior pointer to slice element used as data (abstracted)")
		e.sc.declareFun("elemptr", []string{"Int", "Int"}, "Int")
		return "(elemptr " + a.Ref + " " + a.Idx + ")"
	case aField:
		return e.interiorPtr(a)
	}
	e.note("address of local cell used as data (abstracted)")
	return e.sc.declareConst("addr", "Int")
}

// ---------- running a function ----------

// runFunction executes fn from entry state st with the given arguments; returns the merged exit state and results.
func (e *Engine) runFunction(fc *fnCtx, st *State, args []Val, free []Val) (*State, []Val) {
	fn := fc.fn
	if len(fn.Blocks) == 0 {
		e.reject("no body: " + fn.String())
	}
	for i, p := range fn.Params {
		fc.regs[p] = args[i]
	}
	for i, fv := range fn.FreeVars {
		if i < len(free) {
			fc.regs[fv] = free[i]
		}
	}
	region := map[*ssa.BasicBlock]bool{}
	for _, b := range fc.order {
		region[b] = true
	}
	e.runRegion(fc, fn.Blocks[0], region, st, nil)
	if len(fc.returns) == 0 {
		// no normal return (always panics / loops forever)
		dead := st.clone()
		dead.Reach = "false"
		var res []Val
		for i := 0; i < fn.Signature.Results().Len(); i++ {
			res = append(res, e.freshVal("noret", fn.Signature.Results().At(i).Type()))
		}
		return dead, res
	}
	var sts []*State
	for _, r := range fc.returns {
		sts = append(sts, r.st)
	}
	out := e.mergeStates(sts, "exit")
	var results []Val
	for i := 0; i < fn.Signature.Results().Len(); i++ {
		var col []Val
		for _, r := range fc.returns {
			col = append(col, r.results[i])
		}
		results = append(results, e.mergeVals(sts, col, "ret"))
	}
	return out, results
}

// runRegion executes the blocks of region in topological order starting at start with state st0.
// If loop != nil the region is that loop's body and edges back to start are returned in back.
func (e *Engine) runRegion(fc *fnCtx, start *ssa.BasicBlock, region map[*ssa.BasicBlock]bool, st0 *State, loop *loopInfo) (back []*State, exits map[*ssa.BasicBlock][]*State) {
	pending := map[*ssa.BasicBlock][]*State{}
	exits = map[*ssa.BasicBlock][]*State{}
	done := map[*ssa.BasicBlock]bool{}
	deliver := func(from, to *ssa.BasicBlock, s *State) {
		if s.Reach == "false" {
			return
		}
		if loop != nil && to == start {
			back = append(back, s)
			return
		}
		if !region[to] {
			exits[to] = append(exits[to], s)
			return
		}
		pending[to] = append(pending[to], s)
	}
	started := false
	for _, b := range fc.order {
		if !region[b] || done[b] {
			continue
		}
		var st *State
		if b == start {
			st = st0.clone()
			started = true
		} else {
			if !started {
				continue
			}
			ins := pending[b]
			if len(ins) == 0 {
				continue
			}
			st = e.mergeStates(ins, fmt.Sprintf("b%d", b.Index))
			delete(pending, b)
		}
		if li := fc.loops[b]; li != nil && !(loop != nil && b == start) {
			// nested (or top-level) loop: handle it whole
			lex := e.handleLoop(fc, li, st)
			for bb := range li.body {
				done[bb] = true
			}
			var tgts []*ssa.BasicBlock
			for t := range lex {
				tgts = append(tgts, t)
			}
			sort.Slice(tgts, func(i, j int) bool { return tgts[i].Index < tgts[j].Index })
			for _, t := range tgts {
				for _, s := range lex[t] {
					deliver(b, t, s)
				}
			}
			continue
		}
		e.execBlock(fc, b, st, deliver)
		done[b] = true
	}
	return back, exits
}

func iterName(li *loopInfo) string { return fmt.Sprintf("$iter%d", li.ordinal) }

func (e *Engine) handleLoop(fc *fnCtx, li *loopInfo, sIn *State) map[*ssa.BasicBlock][]*State {
	// ghost iteration counter ($n in invariants): 0 on entry, +1 on every back edge
	sIn = sIn.clone()
	e.setHeapIn(sIn, iterName(li), "Int", "0")
	// 1. dry run from a fully havoc'd state to find what the body modifies
	e.dry++
	dryStart, dryN0 := len(e.sc.lines), e.sc.n
	dry := &State{Cells: map[ssa.Value]Val{}, Heaps: map[string]string{}, Epoch: e.newEpoch()}
	dry.Reach = e.sc.declareConst("dryreach", "Bool")
	syms := map[ssa.Value]string{}
	for k, v := range sIn.Cells {
		if len(v.Tuple) > 0 || v.Clo != nil || v.Addr != nil {
			dry.Cells[k] = v
			continue
		}
		nv := Val{T: e.sc.declareConst("dry", v.S), S: v.S, GoT: v.GoT}
		dry.Cells[k] = nv
		syms[k] = nv.T
	}
	savedReturns := len(fc.returns)
	var log []storeRec
	savedLog := e.storeLog
	e.storeLog = &log
	dryBack, _ := e.runRegion(fc, li.header, li.body, dry, li)
	e.storeLog = savedLog
	fc.returns = fc.returns[:savedReturns]
	e.dry--
	e.pruneDryRun(dryStart, dryN0, dry.Epoch)
	modCells := map[ssa.Value]bool{}
	modHeaps := map[string]bool{iterName(li): true}
	havocAll := false
	for _, bs := range dryBack {
		for k, sym := range syms {
			if v, ok := bs.Cells[k]; !ok || v.T != sym {
				modCells[k] = true
			}
		}
		if bs.Epoch != dry.Epoch {
			havocAll = true
		}
		for n, t := range bs.Heaps {
			if t != e.heapIn(dry, n, e.heapSorts[n]) {
				modHeaps[n] = true
			}
		}
	}
	// 2. invariants hold on entry
	invs := e.loopInvariants(fc, li)
	for i, inv := range invs {
		f := e.evalInv(fc, li, sIn, inv)
		e.addObl(fc.fn, "inv.init", invLabel(li, i, inv), li.header.Instrs[0].Pos(), sIn.Reach, f)
	}
	// 3. havoc what the body modifies, assume invariants
	head := sIn.clone()
	var cellKeys []ssa.Value
	for k := range modCells {
		cellKeys = append(cellKeys, k)
	}
	sort.Slice(cellKeys, func(i, j int) bool { return cellKeys[i].Name() < cellKeys[j].Name() })
	for _, k := range cellKeys {
		old := sIn.Cells[k]
		var t types.Type
		if a, ok := k.(*ssa.Alloc); ok {
			t = deref(a.Type())
		} else {
			t = old.GoT
		}
		nv := Val{T: e.sc.declareConst("lh_"+k.Name(), old.S), S: old.S, GoT: t}
		e.rangeFacts("true", nv, t)
		head.Cells[k] = nv
	}
	if havocAll {
		e.havocAll(head, "loop body of "+fc.fn.Name())
	} else {
		// refine: heaps stored only at loop-invariant refs keep every other location
		for _, n := range sortedKeys(modHeaps) {
			srt := e.heapSorts[n]
			fresh := e.sc.declareConst("lh_"+n, srt)
			refs, ok := e.invariantStoreRefs(log, n, syms, modCells, sIn, dry)
			if ok && len(refs) > 0 && strings.HasPrefix(srt, "(Array Int ") {
				cur := e.heapIn(sIn, n, srt)
				for _, r := range refs {
					cur = store(cur, r, sel(fresh, r))
				}
				head.Heaps[n] = e.sc.define("lh_"+n, srt, cur)
			} else {
				head.Heaps[n] = fresh
			}
			if n == allocHeap {
				e.sc.assert("(>= " + fresh + " " + e.heapIn(sIn, n, srt) + ")")
			}
			if n == iterName(li) {
				e.sc.assert("(>= " + fresh + " 0)")
			}
		}
	}
	// whatever a variable holds at the loop head has been allocated by then
	for _, k := range cellKeys {
		if v := head.Cells[k]; v.GoT != nil {
			e.loadFacts(head, v, v.GoT)
		}
	}
	for _, inv := range invs {
		e.assume(head, e.evalInv(fc, li, head, inv))
	}
	// the function's own frame condition is an implicit invariant of every loop
	var frameHeaps []string
	if fc.contract != nil && !fc.contract.ModAll && len(e.inlineStack) == 0 && !havocAll {
		for _, n := range sortedKeys(modHeaps) {
			if n == allocHeap || strings.HasPrefix(n, "$iter") {
				continue
			}
			f, ok := e.frameFormula(fc, n, head)
			if !ok {
				continue
			}
			frameHeaps = append(frameHeaps, n)
			if fin, ok := e.frameFormula(fc, n, sIn); ok && fin != "true" {
				e.addObl(fc.fn, "frame.init", fmt.Sprintf("[%d] %s", li.ordinal, n), li.header.Instrs[0].Pos(), sIn.Reach, fin)
			}
			e.assume(head, f)
		}
	}
	e.autoInvariants(fc, li, sIn, head, modCells)
	var measureHead string
	dec, hasDec := e.loopDecreases(fc, li)
	if hasDec {
		measureHead = e.sc.define("measure", "Int", e.evalInv(fc, li, head, dec))
	}
	// 4. real run
	backs, exits := e.runRegion(fc, li.header, li.body, head, li)
	for _, bs := range backs {
		if !havocAll {
			e.setHeapIn(bs, iterName(li), "Int", "(+ "+e.heapIn(head, iterName(li), "Int")+" 1)")
		}
		// assertions at the back edge come first (they are lemmas for the invariants' preservation)
		if fc.contract != nil && len(fc.contract.Asserts) > 0 && len(e.inlineStack) == 0 {
			texts := loopTexts(fc.fn)
			for key, cls := range fc.contract.Asserts {
				if !strings.HasPrefix(key, "backedge ") {
					continue
				}
				if ord, ok := resolveLoopKey(texts, strings.TrimPrefix(key, "backedge ")); ok && ord == li.ordinal {
					for _, cl := range cls {
						f := e.evalInv(fc, li, bs, cl)
						e.addObl(fc.fn, "assert", "["+key+"] "+cl.Text, li.header.Instrs[0].Pos(), bs.Reach, f)
						e.assume(bs, f) // assert-then-assume: the invariants below may rely on it
					}
				}
			}
		}
		for i, inv := range invs {
			f := e.evalInv(fc, li, bs, inv)
			e.addObl(fc.fn, "inv.preserved", invLabel(li, i, inv), li.header.Instrs[0].Pos(), bs.Reach, f)
		}
		for _, n := range frameHeaps {
			if f, ok := e.frameFormula(fc, n, bs); ok {
				e.addObl(fc.fn, "frame.preserved", fmt.Sprintf("[%d] %s", li.ordinal, n), li.header.Instrs[0].Pos(), bs.Reach, f)
			}
		}
		if hasDec {
			m := e.evalInv(fc, li, bs, dec)
			e.addObl(fc.fn, "dec", fmt.Sprintf("[%d] %s", li.ordinal, dec.Text), li.header.Instrs[0].Pos(), bs.Reach, and("(>= "+measureHead+" 0)", "(< "+m+" "+measureHead+")"))
		}
	}
	return exits
}

// invariantStoreRefs returns the refs stored to in heap n during the dry run if all of them are loop-invariant terms.
func (e *Engine) invariantStoreRefs(log []storeRec, n string, syms map[ssa.Value]string, modCells map[ssa.Value]bool, sIn, dry *State) ([]string, bool) {
	symToReal := map[string]string{}
	for k, s := range syms {
		if !modCells[k] {
			symToReal[s] = sIn.Cells[k].T
		}
	}
	seen := map[string]bool{}
	var out []string
	found := false
	for _, r := range log {
		if r.heap != n {
			continue
		}
		found = true
		real, ok := symToReal[r.ref]
		if !ok {
			return nil, false
		}
		if !seen[real] {
			seen[real] = true
			out = append(out, real)
		}
	}
	return out, found
}

// autoInvariants: facts that hold for the hidden counters of range loops.
func (e *Engine) autoInvariants(fc *fnCtx, li *loopInfo, sIn, head *State, mod map[ssa.Value]bool) {
	for k := range mod {
		a, ok := k.(*ssa.Alloc)
		if !ok {
			continue
		}
		switch a.Comment {
		case "rangeindex":
			e.assume(head, "(>= "+head.Cells[k].T+" (- 1))")
			// index+1 <= length: holds initially (index = -1) and is preserved because the body is only entered when index+1 < length
			if iff, ok := li.header.Instrs[len(li.header.Instrs)-1].(*ssa.If); ok {
				if cmp, ok := iff.Cond.(*ssa.BinOp); ok && cmp.Op == token.LSS {
					if lv, ok := fc.regs[cmp.Y]; ok && lv.T != "" {
						e.assume(head, "(<= (+ "+head.Cells[k].T+" 1) "+lv.T+")")
					} else if c, ok := cmp.Y.(*ssa.Const); ok {
						e.assume(head, "(<= (+ "+head.Cells[k].T+" 1) "+e.constVal(c).T+")")
					}
				}
			}
		case "rangeint.iter":
			e.assume(head, "(>= "+head.Cells[k].T+" 0)")
			// iter < bound at the loop head (= the body): the body is entered from the preheader only when 0 < bound and
			// from the increment block only when iter+1 < bound
			for _, p := range li.header.Preds {
				if !li.body[p] {
					continue
				}
				if iff, ok := p.Instrs[len(p.Instrs)-1].(*ssa.If); ok {
					if cmp, ok := iff.Cond.(*ssa.BinOp); ok && cmp.Op == token.LSS && p.Succs[0] == li.header {
						if lv, ok := fc.regs[cmp.Y]; ok && lv.T != "" && !li.body[valueBlock(cmp.Y)] {
							e.assume(head, "(< "+head.Cells[k].T+" "+lv.T+")")
						} else if c, ok := cmp.Y.(*ssa.Const); ok {
							e.assume(head, "(< "+head.Cells[k].T+" "+e.constVal(c).T+")")
						}
					}
				}
			}
		}
	}
}

func (e *Engine) loopInvariants(fc *fnCtx, li *loopInfo) []Clause {
	if fc.contract == nil || len(e.inlineStack) > 0 {
		return nil
	}
	out := append([]Clause(nil), fc.contract.Invariants[li.ordinal]...)
	if len(fc.contract.KeyedInv) > 0 {
		for key, cls := range e.loopKeys(fc) {
			if key.ordinal == li.ordinal {
				out = append(out, cls...)
			}
		}
	}
	return out
}

func (e *Engine) loopDecreases(fc *fnCtx, li *loopInfo) (Clause, bool) {
	if fc.contract == nil || len(e.inlineStack) > 0 {
		return Clause{}, false
	}
	if c, ok := fc.contract.Decreases[li.ordinal]; ok {
		return c, true
	}
	if len(fc.contract.KeyedDec) > 0 {
		texts := loopTexts(fc.fn)
		for key, c := range fc.contract.KeyedDec {
			if ord, ok := resolveLoopKey(texts, key); ok && ord == li.ordinal {
				return c, true
			}
		}
	}
	return Clause{}, false
}

type loopKeyRes struct {
	key     string
	ordinal int
}

// loopKeys resolves the text-keyed invariants of the contract to loop ordinals (source order of the loops).
func (e *Engine) loopKeys(fc *fnCtx) map[loopKeyRes][]Clause {
	if fc.keyed != nil {
		return fc.keyed
	}
	fc.keyed = map[loopKeyRes][]Clause{}
	texts := loopTexts(fc.fn)
	for key, cls := range fc.contract.KeyedInv {
		ord, ok := resolveLoopKey(texts, key)
		if !ok {
			// the loop header text changed: fall back to the position of the key among the contract's loop keys when the
			// function still has exactly as many loops as the contract names
			if len(texts) == len(fc.contract.KeyOrder) {
				for i, k := range fc.contract.KeyOrder {
					if k == key {
						ord, ok = i, true
						e.note(fmt.Sprintf("loop key %q not found by text; matched by position to loop %d (%s)", key, i, texts[i]))
					}
				}
			}
		}
		if !ok {
			for _, cl := range cls {
				e.dropClause(cl.Text, fmt.Sprintf("invariant[%s]: no loop with that header in %s (loops: %s)", key, fc.fn.Name(), strings.Join(texts, " | ")))
			}
			continue
		}
		fc.keyed[loopKeyRes{key, ord}] = cls
	}
	return fc.keyed
}

// loopTexts lists the loops of fn in source order as "range <expr>" / "for <cond>".
func loopTexts(fn *ssa.Function) []string {
	var body ast.Node
	switch s := fn.Syntax().(type) {
	case *ast.FuncDecl:
		body = s.Body
	case *ast.FuncLit:
		body = s.Body
	}
	if body == nil {
		return nil
	}
	var out []string
	ast.Inspect(body, func(n ast.Node) bool {
		switch x := n.(type) {
		case *ast.FuncLit:
			return false
		case *ast.RangeStmt:
			out = append(out, "range "+types.ExprString(x.X))
		case *ast.ForStmt:
			if x.Cond != nil {
				out = append(out, "for "+types.ExprString(x.Cond))
			} else {
				out = append(out, "for")
			}
		}
		return true
	})
	return out
}

func resolveLoopKey(texts []string, key string) (int, bool) {
	want, nth := key, 0
	if i := strings.LastIndex(key, "#"); i > 0 {
		if n, err := strconv.Atoi(key[i+1:]); err == nil {
			want, nth = strings.TrimSpace(key[:i]), n
		}
	}
	norm := func(s string) string { return strings.Join(strings.Fields(s), "") }
	k := 0
	for i, t := range texts {
		if norm(t) == norm(want) {
			if k == nth {
				return i, true
			}
			k++
		}
	}
	return 0, false
}

func (e *Engine) evalInv(fc *fnCtx, li *loopInfo, st *State, c Clause) (out string) {
	if e.droppedClause[c.Text] {
		return "true"
	}
	defer e.recoverClause(c.Text, &out)
	env := fc.env.with(st)
	env.loop = li
	env.fc = fc
	// in an invariant a parameter name denotes the current value of the (mutable) parameter variable
	env.vars = map[string]Val{}
	for k, v := range fc.env.vars {
		if _, isParam := fc.env.entryVals[k]; isParam {
			if _, ok := e.localByName(env, k); ok {
				continue
			}
		}
		env.vars[k] = v
	}
	v := e.trSpec(env, c.E)
	return v.T
}

// ---------- blocks ----------

func (e *Engine) execBlock(fc *fnCtx, b *ssa.BasicBlock, st *State, deliver func(from, to *ssa.BasicBlock, s *State)) {
	for _, ins := range b.Instrs {
		switch x := ins.(type) {
		case *ssa.If:
			c := e.val(fc, x.Cond).T
			thenS, elseS := st.clone(), st.clone()
			thenS.Reach = e.sc.define(fmt.Sprintf("e%d_%d", b.Index, b.Succs[0].Index), "Bool", and(st.Reach, c))
			elseS.Reach = e.sc.define(fmt.Sprintf("e%d_%d", b.Index, b.Succs[1].Index), "Bool", and(st.Reach, not(c)))
			fc.edges[[2]int{b.Index, b.Succs[0].Index}] = thenS.Reach
			fc.edges[[2]int{b.Index, b.Succs[1].Index}] = elseS.Reach
			deliver(b, b.Succs[0], thenS)
			deliver(b, b.Succs[1], elseS)
			return
		case *ssa.Jump:
			fc.edges[[2]int{b.Index, b.Succs[0].Index}] = st.Reach
			deliver(b, b.Succs[0], st)
			return
		case *ssa.Return:
			var rs []Val
			for _, r := range x.Results {
				rs = append(rs, e.val(fc, r))
			}
			if fc.contract != nil && len(fc.contract.Asserts) > 0 && len(e.inlineStack) == 0 {
				e.checkReturnAsserts(fc, st, x)
			}
			fc.returns = append(fc.returns, retState{st, rs})
			return
		case *ssa.Panic:
			if e.isContractPanicOK(fc) {
				return
			}
			e.addObl(fc.fn, "panic-reachable", e.srcText(x.Pos(), "call"), x.Pos(), st.Reach, "false")
			return
		default:
			e.execInstr(fc, b, st, ins)
		}
	}
}

func (e *Engine) isContractPanicOK(fc *fnCtx) bool { return false }

func (e *Engine) setReg(fc *fnCtx, v ssa.Value, val Val) {
	if val.GoT == nil {
		val.GoT = v.Type()
	}
	fc.regs[v] = val
}

func (e *Engine) defineReg(fc *fnCtx, v ssa.Value, sortName, term string) Val {
	val := Val{T: e.sc.define(fc.fn.Name()+"_"+v.Name(), sortName, term), S: sortName, GoT: v.Type()}
	fc.regs[v] = val
	return val
}

func (e *Engine) execInstr(fc *fnCtx, b *ssa.BasicBlock, st *State, ins ssa.Instruction) {
	switch x := ins.(type) {
	case *ssa.DebugRef:
	case *ssa.Alloc:
		elem := deref(x.Type())
		if !x.Heap {
			st.Cells[x] = Val{T: e.zero(elem), S: e.sortOf(elem), GoT: elem}
			fc.regs[x] = Val{S: "Int", Addr: &Addr{Kind: aCell, Cell: ssa.Value(x), ElemT: elem}, GoT: x.Type()}
			return
		}
		ref := e.newRef(st, x.Comment)
		e.initPointee(st, ref, elem)
		fc.regs[x] = Val{T: ref, S: "Int", GoT: x.Type()}
	case *ssa.Store:
		a := e.addrOf(fc, st, x.Addr, b, x.Pos())
		v := e.val(fc, x.Val)
		if v.Addr != nil && v.Clo == nil {
			v = Val{T: e.ptrTerm(v), S: "Int", GoT: v.GoT}
		}
		e.storeTo(st, a, v)
	case *ssa.UnOp:
		e.execUnOp(fc, b, st, x)
	case *ssa.BinOp:
		e.execBinOp(fc, b, st, x)
	case *ssa.FieldAddr:
		xv := e.val(fc, x.X)
		st0 := deref(x.X.Type())
		u, _ := isStruct(st0)
		ft := u.Field(x.Field).Type()
		if xv.Addr != nil {
			na := *xv.Addr
			na.Path = append(append([]pathStep(nil), xv.Addr.Path...), pathStep{Field: x.Field, T: xv.Addr.ElemT})
			na.ElemT = ft
			fc.regs[x] = Val{S: "Int", Addr: &na, GoT: x.Type()}
			return
		}
		e.nilCheck(fc, st, xv.T, b, x.Pos(), x.X)
		hn, hs := e.fieldHeapName(st0, u, x.Field)
		fc.regs[x] = Val{S: "Int", Addr: &Addr{Kind: aField, Ref: xv.T, Heap: hn, HSort: hs, ElemT: ft}, GoT: x.Type()}
	case *ssa.Field:
		xv := e.val(fc, x.X)
		u, _ := isStruct(x.X.Type())
		srt := e.structSort(x.X.Type(), u)
		ft := u.Field(x.Field).Type()
		e.defineReg(fc, x, e.sortOf(ft), "("+e.fieldSel(srt, u, x.Field)+" "+xv.T+")")
	case *ssa.IndexAddr:
		e.execIndexAddr(fc, b, st, x)
	case *ssa.Index:
		xv := e.val(fc, x.X)
		iv := e.val(fc, x.Index)
		switch u := x.X.Type().Underlying().(type) {
		case *types.Array:
			e.addObl(fc.fn, "index", e.srcText(x.Pos(), "index"), x.Pos(), st.Reach, and("(<= 0 "+iv.T+")", fmt.Sprintf("(< %s %d)", iv.T, u.Len())))
			e.defineReg(fc, x, e.sortOf(u.Elem()), sel(xv.T, iv.T))
		default: // string
			e.addObl(fc.fn, "index", e.srcText(x.Pos(), "index"), x.Pos(), st.Reach, and("(<= 0 "+iv.T+")", "(< "+iv.T+" (str.len "+xv.T+"))"))
			r := e.defineReg(fc, x, "Int", "(str.to_code (str.at "+xv.T+" "+iv.T+"))")
			e.assume(st, and("(>= "+r.T+" 0)", "(<= "+r.T+" 255)"))
		}
	case *ssa.Lookup:
		e.execLookup(fc, b, st, x)
	case *ssa.Slice:
		e.execSlice(fc, b, st, x)
	case *ssa.Call:
		v := e.execCall(fc, b, st, x.Common(), x, x.Pos())
		e.setReg(fc, x, v)
	case *ssa.Defer:
		fc.defers = append(fc.defers, x)
	case *ssa.RunDefers:
		for i := len(fc.defers) - 1; i >= 0; i-- {
			d := fc.defers[i]
			if d.Block() == b || d.Block().Dominates(b) {
				e.execCall(fc, b, st, d.Common(), nil, d.Pos())
			} else {
				// conditional defer (registered on some paths only): its effect is over-approximated by executing it,
				// but it raises no obligations: on the paths where it was not registered it does not run at all. The
				// preconditions of such a deferred call are therefore NOT checked (noted in the evidence).
				e.note("a defer registered on some paths only: its effect is applied at every return, its own obligations are not checked")
				e.dry++
				e.execCall(fc, b, st, d.Common(), nil, d.Pos())
				e.dry--
			}
		}
	case *ssa.Phi:
		var vals []Val
		var conds []string
		for i, edge := range x.Edges {
			p := b.Preds[i]
			v, ok := fc.regs[edge]
			if _, isC := edge.(*ssa.Const); isC {
				v, ok = e.constVal(edge.(*ssa.Const)), true
			}
			if !ok {
				continue
			}
			c, ok2 := fcEdge(fc, p, b)
			if !ok2 {
				continue
			}
			vals = append(vals, v)
			conds = append(conds, c)
		}
		if len(vals) == 0 {
			e.setReg(fc, x, e.freshVal("phi", x.Type()))
			return
		}
		t := vals[len(vals)-1].T
		for i := len(vals) - 2; i >= 0; i-- {
			t = ite(conds[i], vals[i].T, t)
		}
		e.defineReg(fc, x, e.sortOf(x.Type()), t)
	case *ssa.Extract:
		tv := e.val(fc, x.Tuple)
		if x.Index < len(tv.Tuple) {
			e.setReg(fc, x, tv.Tuple[x.Index])
		} else {
			e.setReg(fc, x, e.freshVal("extract", x.Type()))
		}
	case *ssa.MakeInterface:
		xv := e.val(fc, x.X)
		if xv.Addr != nil {
			xv = Val{T: e.ptrTerm(xv), S: "Int"}
		}
		if xv.S == "Tuple" {
			e.setReg(fc, x, e.freshVal("iface", x.Type()))
			return
		}
		box, _ := e.boxFns(x.X.Type())
		e.defineReg(fc, x, "Int", "("+box+" "+xv.T+")")
	case *ssa.ChangeInterface:
		v := e.val(fc, x.X)
		v.GoT = x.Type()
		fc.regs[x] = v
	case *ssa.ChangeType:
		v := e.val(fc, x.X)
		v.GoT = x.Type()
		if ns := e.sortOf(x.Type()); ns != v.S && v.Clo == nil && v.Addr == nil {
			// struct types with identical underlying type: rebuild
			v = e.convertStruct(v, x.X.Type(), x.Type())
		}
		fc.regs[x] = v
	case *ssa.Convert:
		e.execConvert(fc, st, x)
	case *ssa.TypeAssert:
		e.execTypeAssert(fc, b, st, x)
	case *ssa.MakeClosure:
		var bs []Val
		for _, bv := range x.Bindings {
			bs = append(bs, e.val(fc, bv))
		}
		clo := &Closure{Fn: x.Fn.(*ssa.Function), Bindings: bs}
		fc.regs[x] = Val{T: "1", S: "Int", Clo: clo, GoT: x.Type()}
		if fc.contract != nil && len(fc.contract.Closures) > 0 && len(e.inlineStack) == 0 {
			e.checkClosureSpec(fc, st, clo, x)
		}
	case *ssa.MakeMap:
		ref := e.newRef(st, "map")
		m := x.Type().Underlying().(*types.Map)
		_, _, dh, ds := e.mapHeapNames(m)
		ks := e.sortOf(m.Key())
		e.setHeapIn(st, dh, ds, store(e.heapIn(st, dh, ds), ref, "((as const (Array "+ks+" Bool)) false)"))
		fc.regs[x] = Val{T: ref, S: "Int", GoT: x.Type()}
	case *ssa.MakeSlice:
		ref := e.newRef(st, "slice")
		elem := x.Type().Underlying().(*types.Slice).Elem()
		hn, hs := e.sliceHeapName(elem)
		ln, cp := e.val(fc, x.Len).T, e.val(fc, x.Cap).T
		e.addObl(fc.fn, "makeslice", e.srcText(x.Pos(), "call"), x.Pos(), st.Reach, and("(<= 0 "+ln+")", "(<= "+ln+" "+cp+")"))
		e.setHeapIn(st, hn, hs, store(e.heapIn(st, hn, hs), ref, "((as const (Array Int "+e.sortOf(elem)+")) "+e.zero(elem)+")"))
		e.defineReg(fc, x, "Slice", "(mk_slice "+ref+" 0 "+ln+" "+cp+")")
	case *ssa.MapUpdate:
		mv := e.val(fc, x.Map)
		m := x.Map.Type().Underlying().(*types.Map)
		k, v := e.val(fc, x.Key), e.val(fc, x.Value)
		if v.Addr != nil {
			v = Val{T: e.ptrTerm(v), S: "Int"}
		}
		e.addObl(fc.fn, "nilmap-write", e.srcText(x.Pos(), "index"), x.Pos(), st.Reach, "(not (= "+mv.T+" 0))")
		e.mapStore(st, m, mv.T, k.T, v.T)
		if fc.contract != nil && fc.contract.HintMapLen {
			// a map that has just received an entry is not empty
			e.assume(st, "(> "+e.mapLenTerm(st, m, mv.T)+" 0)")
		}
	case *ssa.Range:
		xv := e.val(fc, x.X)
		if m, ok := x.X.Type().Underlying().(*types.Map); ok {
			// ghost set of keys already visited by this iteration
			ks := e.sortOf(m.Key())
			srt := "(Array " + ks + " Bool)"
			st.Cells[x] = Val{T: e.sc.define("visited", srt, "((as const "+srt+") false)"), S: srt}
		} else {
			st.Cells[x] = Val{T: "0", S: "Int"}
		}
		fc.regs[x] = xv
	case *ssa.Next:
		e.execNext(fc, b, st, x)
	case *ssa.Go, *ssa.Send, *ssa.Select, *ssa.MakeChan:
		e.reject(fmt.Sprintf("concurrency instruction %T", ins))
	case *ssa.SliceToArrayPointer, *ssa.MultiConvert:
		e.setReg(fc, x.(ssa.Value), e.freshVal("conv", x.(ssa.Value).Type()))
	default:
		e.reject(fmt.Sprintf("unsupported instruction %T in %s", ins, fc.fn))
	}
}

func fcEdge(fc *fnCtx, p, b *ssa.BasicBlock) (string, bool) {
	c, ok := fc.edges[[2]int{p.Index, b.Index}]
	return c, ok
}

func (e *Engine) initPointee(st *State, ref string, elem types.Type) {
	switch u := elem.Underlying().(type) {
	case *types.Struct:
		e.storeStruct(st, ref, elem, u, e.zero(elem))
	case *types.Array:
		hn, hs := e.sliceHeapName(u.Elem())
		e.setHeapIn(st, hn, hs, store(e.heapIn(st, hn, hs), ref, "((as const (Array Int "+e.sortOf(u.Elem())+")) "+e.zero(u.Elem())+")"))
	default:
		hn, hs := e.ptrHeapName(elem)
		e.setHeapIn(st, hn, hs, store(e.heapIn(st, hn, hs), ref, e.zero(elem)))
	}
}

func (e *Engine) convertStruct(v Val, from, to types.Type) Val {
	fu, ok1 := isStruct(from)
	tu, ok2 := isStruct(to)
	if !ok1 || !ok2 || fu.NumFields() != tu.NumFields() {
		v.S = e.sortOf(to)
		return v
	}
	fs := e.structSort(from, fu)
	ts := e.structSort(to, tu)
	if fs == ts {
		return v
	}
	var parts []string
	for i := 0; i < fu.NumFields(); i++ {
		parts = append(parts, "("+e.fieldSel(fs, fu, i)+" "+v.T+")")
	}
	if len(parts) == 0 {
		return Val{T: "(mk_" + ts + " 0)", S: ts, GoT: to}
	}
	return Val{T: "(mk_" + ts + " " + strings.Join(parts, " ") + ")", S: ts, GoT: to}
}

type interiorCand struct {
	heap, sort, owner, fn string
	id                    int
	fieldT                types.Type // type of the addressed location
	baseT                 types.Type // type stored in the field heap (before path)
	path                  []pathStep
}

// interiorPtr returns the pointer value of the address of a struct field (p.f or p.f.g...): an injective function
// of p, tagged (pkind) with the location it points into.
func (e *Engine) interiorPtr(a *Addr) string {
	if e.interior == nil {
		e.interior = map[string]*interiorCand{}
	}
	key := a.Heap
	for _, ps := range a.Path {
		key += fmt.Sprintf(".%d", ps.Field)
		if ps.Field < 0 {
			e.note("interior pointer to an array element inside a struct field (abstracted)")
			return e.sc.declareConst("addr", "Int")
		}
	}
	c, ok := e.interior[key]
	if !ok {
		f := "fieldptr_" + sanitize(key)
		c = &interiorCand{heap: a.Heap, sort: a.HSort, owner: "owner_" + sanitize(key), fn: f, id: len(e.interior) + 1, fieldT: a.ElemT, baseT: a.baseType(), path: a.Path}
		e.interior[key] = c
		e.sc.declareFun(f, []string{"Int"}, "Int")
		e.sc.declareFun(c.owner, []string{"Int"}, "Int")
		e.sc.declareFun("pkind", []string{"Int"}, "Int")
		e.sc.assert(fmt.Sprintf("(forall ((r Int)) (! (and (= (%s (%s r)) r) (= (pkind (%s r)) %d) (not (= (%s r) 0))) :pattern ((%s r))))", c.owner, f, f, c.id, f, f))
		e.note("address of struct field " + key + " taken: dereferences of pointers of that type consider it")
	}
	return "(" + c.fn + " " + a.Ref + ")"
}

func (e *Engine) interiorCands(t types.Type) []*interiorCand {
	var out []*interiorCand
	for _, n := range sortedKeys(e.interior) {
		c := e.interior[n]
		if types.Identical(c.fieldT, t) {
			out = append(out, c)
		}
	}
	return out
}

func valueBlock(v ssa.Value) *ssa.BasicBlock {
	if ins, ok := v.(ssa.Instruction); ok {
		return ins.Block()
	}
	return nil
}

func invLabel(li *loopInfo, i int, inv Clause) string {
	if inv.Key != "" {
		return fmt.Sprintf("[%s] %s", inv.Key, inv.Text)
	}
	return fmt.Sprintf("[%d.%d] %s", li.ordinal, i, inv.Text)
}

// closureOrdinal: k for the function literal fn$k+1 of its parent.
func closureOrdinal(fn *ssa.Function) int {
	name := fn.Name()
	i := strings.LastIndex(name, "$")
	if i < 0 {
		return -1
	}
	n, err := strconv.Atoi(name[i+1:])
	if err != nil {
		return -1
	}
	return n - 1
}

// checkClosureSpec: `closure[k] e` - the k-th function literal returns e($0, $1, ...) for all arguments
// (checked by executing its body on fresh symbolic arguments); HOF contracts then use e instead of the body.
func (e *Engine) checkClosureSpec(fc *fnCtx, st *State, clo *Closure, mk *ssa.MakeClosure) {
	cfn := clo.Fn.(*ssa.Function)
	cl, ok := fc.contract.Closures[closureBaseOrdinal(e.w, fc.fn, closureOrdinal(cfn))]
	if !ok || e.droppedClause[cl.Text+fmt.Sprintf(" @closure[%d]", closureOrdinal(cfn))] {
		return
	}
	// a specification that does not fit this literal any more (a literal was added or removed before it, so the ordinal
	// names another function) is dropped on its own, like any other clause; the rest of the contract is still checked
	defer func() {
		if r := recover(); r != nil {
			if se, ok := r.(specError); ok {
				e.dropClause(cl.Text+fmt.Sprintf(" @closure[%d]", closureOrdinal(cfn)), se.msg)
				clo.Spec, clo.SpecEnv = nil, nil
				return
			}
			panic(r)
		}
	}()
	env := fc.env.with(st)
	env.fc = fc
	env.vars = map[string]Val{}
	for k, v := range fc.env.vars {
		if _, isParam := fc.env.entryVals[k]; isParam {
			if _, ok := e.localByName(env, k); ok {
				continue
			}
		}
		env.vars[k] = v
	}
	clo.Spec, clo.SpecEnv = cl.E, env
	if !e.canInline(fc, cfn) {
		e.specFail(env, "closure["+fmt.Sprint(closureOrdinal(cfn))+"]: the function literal is not loop-free; its specification cannot be checked")
	}
	var args []Val
	for i, p := range cfn.Params {
		args = append(args, e.freshVal(fmt.Sprintf("cloarg%d", i), p.Type()))
	}
	tmp := st.clone()
	res := e.inlineCall(fc, tmp, cfn, args, clo.Bindings, cfn.Signature.Results())
	spec := e.applyClosureSpec(clo, args)
	e.addObl(fc.fn, "closure", fmt.Sprintf("[%d] %s", closureOrdinal(cfn), cl.Text), mk.Pos(), tmp.Reach, eq(res.T, spec.T))
}

func (e *Engine) applyClosureSpec(clo *Closure, args []Val) Val {
	env := clo.SpecEnv
	for i, a := range args {
		cfn := clo.Fn.(*ssa.Function)
		if i < len(cfn.Params) {
			a.GoT = cfn.Params[i].Type()
		}
		env = env.bind(fmt.Sprintf("$%d", i), a)
	}
	return e.trSpec(env, clo.Spec)
}

// checkReturnAsserts: `assert[return#k] e` is an obligation at the k-th return statement (source order).
func (e *Engine) checkReturnAsserts(fc *fnCtx, st *State, ret *ssa.Return) {
	if fc.retOcc == nil {
		fc.retOcc = map[*ssa.Return]int{}
		var rets []*ssa.Return
		for _, b := range fc.fn.Blocks {
			for _, ins := range b.Instrs {
				if r, ok := ins.(*ssa.Return); ok {
					rets = append(rets, r)
				}
			}
		}
		sort.SliceStable(rets, func(i, j int) bool { return rets[i].Pos() < rets[j].Pos() })
		for i, r := range rets {
			fc.retOcc[r] = i
		}
	}
	key := fmt.Sprintf("return#%d", fc.retOcc[ret])
	for _, cl := range fc.contract.Asserts[key] {
		env := fc.env.with(st)
		env.fc = fc
		env.vars = map[string]Val{}
		for k, v := range fc.env.vars {
			if _, isParam := fc.env.entryVals[k]; isParam {
				if _, ok := e.localByName(env, k); ok {
					continue
				}
			}
			env.vars[k] = v
		}
		var rvals []Val
		for _, r := range ret.Results {
			rvals = append(rvals, e.dataVal(e.val(fc, r)))
		}
		env.bindResults(fc.fn.Signature, rvals)
		env.curBlock = ret.Block()
		env.at = ret.Pos()
		if f, okc := e.clauseTerm(env, cl); okc {
			e.addObl(fc.fn, "assert", "["+key+"] "+cl.Text, ret.Pos(), st.Reach, f)
		}
	}
}

var bangNum = regexp.MustCompile(`![0-9]+`)
var epochHeap = regexp.MustCompile(`\bH([0-9]+)_`)

// pruneDryRun drops the path facts the dry run of a loop body left in the script: assertions that mention a symbol
// created during the dry run (a numbered symbol >= n0 or a heap constant of an epoch >= ep0). Nothing after the dry run
// refers to those symbols except through definitions, which are kept (declarations, define-funs, and assertions of
// the form (= sym term) that define a declared constant). Dropping assertions can only make later obligations harder
// to prove, never easier.
func (e *Engine) pruneDryRun(start, n0, ep0 int) {
	if e.dry > 0 || start >= len(e.sc.lines) {
		return // nested dry run: the enclosing one prunes
	}
	mentions := func(ln string) bool {
		for _, m := range bangNum.FindAllString(ln, -1) {
			if k, err := strconv.Atoi(m[1:]); err == nil && k >= n0 {
				return true
			}
		}
		for _, m := range epochHeap.FindAllStringSubmatch(ln, -1) {
			if k, err := strconv.Atoi(m[1]); err == nil && k >= ep0 {
				return true
			}
		}
		return false
	}
	kept := e.sc.lines[:start:start]
	for _, ln := range e.sc.lines[start:] {
		if strings.HasPrefix(ln, "(assert ") && !strings.HasPrefix(ln, "(assert (= ") && mentions(ln) {
			continue
		}
		kept = append(kept, ln)
	}
	e.sc.lines = kept
}

// A clause that cannot be interpreted on the current tree (it names a local, a call or a loop that no longer exists)
// is dropped on its own: the obligations it generated in the baseline vanish (reported, not an alarm), and everything
// else of the contract is still checked - obligations that relied on the dropped clause then fail by name.
func (e *Engine) dropClause(text, why string) {
	if e.droppedClause == nil {
		e.droppedClause = map[string]bool{}
	}
	if !e.droppedClause[text] {
		e.droppedClause[text] = true
		e.dropped = append(e.dropped, why+" :: "+text)
	}
}

func (e *Engine) recoverClause(text string, out *string) {
	if r := recover(); r != nil {
		if se, ok := r.(specError); ok {
			e.dropClause(text, se.msg)
			*out = "true"
			return
		}
		panic(r)
	}
}

// clauseTerm translates a clause; ok is false when the clause had to be dropped.
func (e *Engine) clauseTerm(env *SpecEnv, cl Clause) (t string, ok bool) {
	if e.droppedClause[cl.Text] {
		return "true", false
	}
	t = "true"
	func() {
		defer e.recoverClause(cl.Text, &t)
		t = e.trSpec(env, cl.E).T
		ok = true
	}()
	return t, ok
}
