package main

// Engine: one verification-condition context (one SMT script) for one function or lemma.

import (
	"fmt"
	"go/ast"
	"go/token"
	"go/types"
	"sort"
	"strings"

	"golang.org/x/tools/go/ast/astutil"
	"golang.org/x/tools/go/ssa"
)

type Obligation struct {
	Name    string
	Kind    string
	Fn      string
	Where   string
	Prefix  int    // number of script lines that precede the query
	Reach   string // path condition
	Formula string // must hold
	Text    string // human-readable
	Expect  string // "" normal (expect unsat of negation); "sat" for reachability probes
	// filled by the solver stage
	Result        string // proved / refuted / undecided
	Backend       string
	TimeS         float64
	Model         string
	Top           *ssa.Function // function under verification when the obligation was generated
	Candidate     string        // model of the quantifier-free relaxation (unvalidated)
	noQuantAxioms bool
	replay        *Replay
	Output        string
	Script        []string
	CapMs         int    // upper bound for the portfolio attempt (known-undecided, non-binding obligations in the thorough tier)
	SolverErr     string // the primary solver rejected the query text (a defect of the generator, not of the code)
}

type State struct {
	Cells map[ssa.Value]Val
	Heaps map[string]string
	Reach string
	Epoch int
	Clos  map[string]*Closure // closures stored in heap-allocated (captured) function variables, by address term
}

func (s *State) clone() *State {
	n := &State{Cells: make(map[ssa.Value]Val, len(s.Cells)), Heaps: make(map[string]string, len(s.Heaps)), Reach: s.Reach, Epoch: s.Epoch, Clos: s.Clos}
	for k, v := range s.Cells {
		n.Cells[k] = v
	}
	for k, v := range s.Heaps {
		n.Heaps[k] = v
	}
	return n
}

type Engine struct {
	loopNodes map[*ssa.Function][]ast.Node
	w            *World
	sc           *Script
	structSorts  map[string]string
	sortNames    map[string]bool
	initHeaps    map[string]string
	frameLinks   map[int]frameLink
	droppedClause map[string]bool
	dropped       []string
	preserveAllCall bool // the call being executed is trusted to change nothing that existed before it
	linked       map[string]bool
	heapSorts    map[string]string
	typeTags     map[string]int
	obls         []*Obligation
	occ          map[string]int
	sweep        bool // zero-annotation safety mode
	epochs       int
	topFn        *ssa.Function
	notes        []string // abstractions applied (for evidence)
	noteSet      map[string]bool
	outside      string // non-empty: function left the supported subset
	dry          int    // >0 while inside a dry run (no obligations recorded)
	specUF       map[string]bool
	inlineStack  []*ssa.Function
	storeLog     *[]storeRec
	ghostInit    bool
	sentinelDone map[string]bool
	factDone     map[string]bool
	interior     map[string]*interiorCand
	privateHeaps map[string]string // heap name -> package path whose unexported type makes the heap inaccessible to other packages
}

type storeRec struct {
	heap string
	ref  string
}

func newEngine(w *World, fn *ssa.Function) *Engine {
	e := &Engine{w: w, sc: newScript(), structSorts: map[string]string{}, sortNames: map[string]bool{}, initHeaps: map[string]string{}, frameLinks: map[int]frameLink{}, linked: map[string]bool{},
		heapSorts: map[string]string{}, typeTags: map[string]int{}, occ: map[string]int{}, topFn: fn, noteSet: map[string]bool{}, specUF: map[string]bool{}}
	return e
}

func (e *Engine) note(s string) {
	if !e.noteSet[s] {
		e.noteSet[s] = true
		e.notes = append(e.notes, s)
	}
}

type outsideSubset struct{ why string }

func (e *Engine) reject(why string) { panic(outsideSubset{why}) }

// ---------- obligations ----------

func (e *Engine) addObl(fn *ssa.Function, kind, text string, pos token.Pos, reach, formula string) {
	if e.dry > 0 {
		return
	}
	if reach == "false" || formula == "true" {
		// trivially discharged; still assume nothing
		return
	}
	fname := funcDisplayName(fn)
	if len(e.inlineStack) > 0 {
		fname = funcDisplayName(e.topFn) + ">" + fname
	}
	base := fname + "#" + kind
	if text != "" {
		base += ":" + text
	}
	k := e.occ[base]
	e.occ[base] = k + 1
	name := fmt.Sprintf("%s@%d", base, k)
	if kind == "post" || kind == "inv.init" || kind == "inv.preserved" || kind == "dec" || kind == "lemma" || kind == "frame" || kind == "pre-of" || kind == "frame.init" || kind == "frame.preserved" || kind == "assert" || kind == "closure" {
		name = base
		if k > 0 {
			name = fmt.Sprintf("%s@%d", base, k)
		}
	}
	o := &Obligation{Name: name, Kind: kind, Fn: fname, Prefix: len(e.sc.lines), Reach: reach, Formula: formula, Text: text, Top: e.topFn}
	if pos.IsValid() {
		p := e.w.Fset.Position(pos)
		o.Where = fmt.Sprintf("%s:%d", strings.TrimPrefix(p.Filename, e.w.RepoDir+"/"), p.Line)
	}
	e.obls = append(e.obls, o)
	// assert-then-assume for mid-path obligations only (end-of-path obligations are independent of each other)
	switch kind {
	case "post", "frame", "inv.preserved", "dec", "frame.preserved":
	default:
		e.sc.assert(implies(reach, formula))
	}
}

func (e *Engine) assume(st *State, formula string) {
	if formula == "true" {
		return
	}
	e.sc.assert(implies(st.Reach, formula))
}

func funcDisplayName(fn *ssa.Function) string {
	if fn == nil {
		return "?"
	}
	s := fn.String()
	s = strings.ReplaceAll(s, repoMod+"/", "")
	s = strings.ReplaceAll(s, repoMod+".", "scalibr.")
	return s
}

// srcText returns the source text of the innermost interesting expression enclosing pos.
func (e *Engine) srcText(pos token.Pos, want string) string {
	f, _ := e.w.fileOf(pos)
	if f == nil {
		return ""
	}
	path, _ := astutil.PathEnclosingInterval(f, pos, pos)
	for _, n := range path {
		switch x := n.(type) {
		case *ast.IndexExpr:
			if want == "index" || want == "" {
				return types.ExprString(x)
			}
		case *ast.SliceExpr:
			if want == "slice" || want == "" {
				return types.ExprString(x)
			}
		case *ast.SelectorExpr:
			if want == "sel" || want == "" {
				return types.ExprString(x)
			}
		case *ast.StarExpr:
			if want == "sel" || want == "" {
				return types.ExprString(x)
			}
		case *ast.TypeAssertExpr:
			if want == "assert" || want == "" {
				return types.ExprString(x)
			}
		case *ast.CallExpr:
			if want == "call" || want == "" {
				return types.ExprString(x.Fun)
			}
		case *ast.RangeStmt:
			if want == "index" || want == "" {
				return "range " + types.ExprString(x.X)
			}
		case ast.Stmt:
			return ""
		}
	}
	return ""
}

// ---------- state helpers ----------

func (e *Engine) newEpoch() int { e.epochs++; return e.epochs }

// heapIn returns the current term of a heap in st (epoch-aware).
func (e *Engine) heapIn(st *State, name, sort string) string {
	if t, ok := st.Heaps[name]; ok {
		return t
	}
	key := fmt.Sprintf("%s@%d", name, st.Epoch)
	if t, ok := e.initHeaps[key]; ok {
		return t
	}
	c := fmt.Sprintf("H%d_%s", st.Epoch, sanitize(name))
	e.sc.emit(fmt.Sprintf("(declare-const %s %s)", c, sort))
	e.initHeaps[key] = c
	e.heapSorts[name] = sort
	if fl, ok := e.frameLinks[st.Epoch]; ok && name != allocHeap && !strings.HasPrefix(name, "GH_") {
		hp := e.heapIn(fl.pre, name, sort)
		e.sc.assert(frameEq(c, hp, sort, name, fl.alloc))
		e.linked[key] = true
	}
	return c
}

// frameLink: the epoch was created by a call that is trusted to change nothing that existed before it.
type frameLink struct {
	pre   *State
	alloc string
}

func frameEq(hq, hp, srt, name, alloc string) string {
	if strings.HasPrefix(name, "G_") || !strings.HasPrefix(srt, "(Array Int ") {
		return "(= " + hq + " " + hp + ")"
	}
	return "(forall ((r Int)) (! (=> (<= r " + alloc + ") (= (select " + hq + " r) (select " + hp + " r))) :pattern ((select " + hq + " r))))"
}

// linkHeap: the heap of the (fresh) epoch of st agrees with the pre-call heap on everything allocated before the call.
func (e *Engine) linkHeap(st *State, name, srt string) {
	if _, ok := st.Heaps[name]; ok {
		fl := e.frameLinks[st.Epoch]
		e.sc.assert(frameEq(st.Heaps[name], e.heapIn(fl.pre, name, srt), srt, name, fl.alloc))
		return
	}
	key := fmt.Sprintf("%s@%d", name, st.Epoch)
	if c, ok := e.initHeaps[key]; ok {
		if !e.linked[key] {
			fl := e.frameLinks[st.Epoch]
			e.sc.assert(frameEq(c, e.heapIn(fl.pre, name, srt), srt, name, fl.alloc))
			e.linked[key] = true
		}
		return
	}
	e.heapIn(st, name, srt) // declares and links
}

func (e *Engine) setHeapIn(st *State, name, sort, term string) {
	e.heapSorts[name] = sort
	if isAtom(term) {
		st.Heaps[name] = term
		return
	}
	st.Heaps[name] = e.sc.define(name, sort, term)
}

func (e *Engine) havocAll(st *State, why string) {
	oldAlloc := e.allocCounter(st)
	st.Heaps = map[string]string{}
	st.Epoch = e.newEpoch()
	e.sc.assert("(>= " + e.allocCounter(st) + " " + oldAlloc + ")")
	// the allocation counter only grows
	e.note("havoc of all heaps at: " + why)
}

// havocAllExcept: like havocAll, but heaps selected by keep retain their content.
func (e *Engine) havocAllExcept(st *State, why string, keep func(name string) bool) {
	kept := map[string]string{}
	for n, srt := range e.heapSorts {
		if keep(n) {
			kept[n] = e.heapIn(st, n, srt)
		}
	}
	e.havocAll(st, why)
	for n, t := range kept {
		st.Heaps[n] = t
	}
}

const allocHeap = "$alloc"

func (e *Engine) allocCounter(st *State) string { return e.heapIn(st, allocHeap, "Int") }

func (e *Engine) newRef(st *State, what string) string {
	cur := e.allocCounter(st)
	r := e.sc.define("ref_"+what, "Int", "(+ "+cur+" 1)")
	st.Heaps[allocHeap] = r
	if e.interior != nil {
		e.sc.assert("(= (pkind " + r + ") 0)")
	}
	if cur == e.initHeaps[fmt.Sprintf("%s@%d", allocHeap, 0)] && !e.ghostInit {
		e.ghostInit = true
		e.sc.assert("(>= " + cur + " 0)")
	}
	return r
}

// mergeStates joins several predecessor states (each with its own Reach as edge condition).
func (e *Engine) mergeStates(sts []*State, label string) *State {
	if len(sts) == 1 {
		n := sts[0].clone()
		return n
	}
	out := &State{Cells: map[ssa.Value]Val{}, Heaps: map[string]string{}, Clos: sts[0].Clos}
	var reaches []string
	for _, s := range sts {
		reaches = append(reaches, s.Reach)
	}
	out.Reach = e.sc.define("reach_"+label, "Bool", or(reaches...))
	sameEpoch := true
	for _, s := range sts[1:] {
		if s.Epoch != sts[0].Epoch {
			sameEpoch = false
		}
	}
	if sameEpoch {
		out.Epoch = sts[0].Epoch
	} else {
		out.Epoch = e.newEpoch()
	}
	// cells: only those present in all predecessors
	for k, v0 := range sts[0].Cells {
		vals := []Val{v0}
		ok := true
		for _, s := range sts[1:] {
			v, has := s.Cells[k]
			if !has {
				ok = false
				break
			}
			vals = append(vals, v)
		}
		if !ok {
			continue
		}
		out.Cells[k] = e.mergeVals(sts, vals, "c")
	}
	// heaps
	names := map[string]bool{}
	for _, s := range sts {
		for n := range s.Heaps {
			names[n] = true
		}
	}
	if !sameEpoch {
		for n := range e.heapSorts {
			names[n] = true
		}
	}
	for _, n := range sortedKeys(names) {
		srt := e.heapSorts[n]
		var vals []Val
		for _, s := range sts {
			vals = append(vals, Val{T: e.heapIn(s, n, srt), S: srt})
		}
		out.Heaps[n] = e.mergeVals(sts, vals, n).T
	}
	return out
}

func (e *Engine) mergeVals(sts []*State, vals []Val, label string) Val {
	same := true
	for _, v := range vals[1:] {
		if v.T != vals[0].T || (v.Addr != vals[0].Addr) || (v.Clo != vals[0].Clo) {
			same = false
		}
	}
	if same {
		return vals[0]
	}
	if len(vals[0].Tuple) > 0 {
		out := Val{S: "Tuple"}
		for i := range vals[0].Tuple {
			var col []Val
			for _, v := range vals {
				col = append(col, v.Tuple[i])
			}
			out.Tuple = append(out.Tuple, e.mergeVals(sts, col, label))
		}
		return out
	}
	t := vals[len(vals)-1].T
	for i := len(vals) - 2; i >= 0; i-- {
		t = ite(sts[i].Reach, vals[i].T, t)
	}
	r := Val{T: e.sc.define("m_"+label, vals[0].S, t), S: vals[0].S, GoT: vals[0].GoT}
	return r
}

func (e *Engine) freshVal(prefix string, t types.Type) Val {
	if tup, ok := t.(*types.Tuple); ok {
		v := Val{S: "Tuple", GoT: t}
		for i := 0; i < tup.Len(); i++ {
			v.Tuple = append(v.Tuple, e.freshVal(fmt.Sprintf("%s_%d", prefix, i), tup.At(i).Type()))
		}
		return v
	}
	s := e.sortOf(t)
	v := Val{T: e.sc.declareConst(prefix, s), S: s, GoT: t}
	e.rangeFacts("true", v, t)
	return v
}

// rangeFacts assumes the value range of sized/unsigned integer types and non-negative lengths.
func (e *Engine) rangeFacts(reach string, v Val, t types.Type) {
	if t == nil {
		return
	}
	switch u := t.Underlying().(type) {
	case *types.Basic:
		var lo, hi string
		switch u.Kind() {
		case types.Uint8:
			lo, hi = "0", "255"
		case types.Uint16:
			lo, hi = "0", "65535"
		case types.Uint32:
			lo, hi = "0", "4294967295"
		case types.Uint, types.Uint64, types.Uintptr:
			lo = "0"
		case types.Int8:
			lo, hi = "(- 128)", "127"
		case types.Int32:
			lo, hi = "(- 2147483648)", "2147483647"
		}
		if lo != "" {
			e.sc.assert(implies(reach, "(>= "+v.T+" "+lo+")"))
		}
		if hi != "" {
			e.sc.assert(implies(reach, "(<= "+v.T+" "+hi+")"))
		}
	case *types.Slice:
		e.sc.assert(implies(reach, and("(>= (s_len "+v.T+") 0)", "(>= (s_off "+v.T+") 0)", "(>= (s_cap "+v.T+") (s_len "+v.T+"))", "(>= (s_ref "+v.T+") 0)",
			implies("(= (s_ref "+v.T+") 0)", "(and (= (s_len "+v.T+") 0) (= (s_cap "+v.T+") 0))"))))
	case *types.Pointer, *types.Map, *types.Chan, *types.Signature:
		e.sc.assert(implies(reach, "(>= "+v.T+" 0)"))
	}
}

func sortedObls(obls []*Obligation) []*Obligation {
	out := append([]*Obligation(nil), obls...)
	sort.SliceStable(out, func(i, j int) bool { return out[i].Name < out[j].Name })
	return out
}

var stdSentinels = map[string]bool{
	"G_io.EOF": true, "G_io.ErrUnexpectedEOF": true, "G_io/fs.ErrNotExist": true, "G_io/fs.ErrExist": true, "G_io/fs.ErrPermission": true,
	"G_io/fs.ErrInvalid": true, "G_io/fs.ErrClosed": true, "G_io/fs.SkipDir": true, "G_io/fs.SkipAll": true, "G_os.ErrNotExist": true,
	"G_path/filepath.SkipDir": true, "G_path/filepath.SkipAll": true,
}

// sentinelFacts: package-level `var ErrX = errors.New(...)` that is never reassigned is non-nil, distinct from
// every other sentinel, and errors.Is(ErrX, t) holds exactly for t == ErrX.
func (e *Engine) sentinelFacts(heapName, term string) {
	if e.sentinelDone == nil {
		e.sentinelDone = map[string]bool{}
	}
	if e.sentinelDone[term] {
		return
	}
	if !stdSentinels[heapName] && !e.w.isRepoSentinel(heapName) {
		return
	}
	e.sentinelDone[term] = true
	id, ok := e.w.sentinelIDs[heapName]
	if !ok {
		if e.w.sentinelIDs == nil {
			e.w.sentinelIDs = map[string]int{}
		}
		id = len(e.w.sentinelIDs) + 1
		e.w.sentinelIDs[heapName] = id
	}
	e.sc.declareFun("sentinelId", []string{"Int"}, "Int")
	if a0, ok := e.initHeaps[fmt.Sprintf("%s@%d", allocHeap, 0)]; ok {
		// the sentinel was allocated during package initialisation, before the function under verification was entered
		e.sc.assert("(<= " + term + " " + a0 + ")")
	}
	e.sc.assert(fmt.Sprintf("(and (> %s 0) (= (sentinelId %s) %d) (forall ((t Int)) (! (= (errIs %s t) (= t %s)) :pattern ((errIs %s t)))))", term, term, id, term, term, term))
	e.w.Trusted["sentinel error variable is never reassigned: "+strings.TrimPrefix(heapName, "G_")] = true
}
