package main

// Ground obligations: closed statements generated from the program text on every run (they change when a plugin
// or a constant is added) and discharged like any other obligation.

import (
	"fmt"
	"go/ast"
	"go/constant"
	"go/token"
	"go/types"
	"sort"
	"strings"

	"golang.org/x/tools/go/ssa"
)

func runGround(w *World, which string) []*FnResult {
	switch which {
	case "purl-types":
		return groundPurlTypes(w)
	case "registry":
		return groundRegistry(w)
	}
	return []*FnResult{{Fn: "ground:" + which, Kind: "ground", SpecErr: "unknown ground obligation generator " + which}}
}

// groundPurlTypes: (1) every string constant purl.Type* is accepted by purl.validType - decided by executing the real
// validType symbolically on the constant; (2) every Type: field of a purl.PackageURL composite literal in the
// repository is such a constant (so every emitted type is covered by (1)).
func groundPurlTypes(w *World) []*FnResult {
	res := &FnResult{Fn: "ground:purl-types", Kind: "ground"}
	purlPath := repoMod + "/purl"
	sp := w.SSAPkgs[purlPath]
	pp := w.Pkgs[purlPath]
	if sp == nil || pp == nil {
		res.SpecErr = "package purl not loaded"
		return []*FnResult{res}
	}
	vt := sp.Func("validType")
	if vt == nil || len(vt.Blocks) == 0 {
		res.SpecErr = "purl.validType not found"
		return []*FnResult{res}
	}
	e := newEngine(w, vt)
	defer func() {
		if r := recover(); r != nil {
			res.SpecErr = fmt.Sprintf("ground purl-types: %v", r)
			res.Obls = nil
		}
	}()
	typeConsts := map[string]string{}
	var names []string
	scope := pp.Types.Scope()
	for _, n := range scope.Names() {
		c, ok := scope.Lookup(n).(*types.Const)
		if !ok || !strings.HasPrefix(n, "Type") || n == "Type" || c.Val().Kind() != constant.String {
			continue
		}
		typeConsts[n] = constant.StringVal(c.Val())
		names = append(names, n)
	}
	sort.Strings(names)
	for _, n := range names {
		st := &State{Cells: map[ssa.Value]Val{}, Heaps: map[string]string{}, Reach: "true"}
		e.allocCounter(st)
		fc := e.newFnCtx(vt)
		e.dry++
		e.inlineStack = append(e.inlineStack, vt)
		exit, results := e.runFunction(fc, st, []Val{{T: smtString(typeConsts[n]), S: "String", GoT: tString}}, nil)
		e.inlineStack = e.inlineStack[:len(e.inlineStack)-1]
		e.dry--
		o := &Obligation{Name: fmt.Sprintf("ground:purl.validType(purl.%s = %q)", n, typeConsts[n]), Kind: "ground", Fn: "ground:purl-types",
			Prefix: len(e.sc.lines), Reach: exit.Reach, Formula: results[0].T, Text: "the library's own parser accepts every package-URL type it defines", Top: vt}
		e.obls = append(e.obls, o)
	}
	// (2) literal sites
	for _, p := range w.repoPackages() {
		for _, f := range p.Syntax {
			ast.Inspect(f, func(nd ast.Node) bool {
				cl, ok := nd.(*ast.CompositeLit)
				if !ok {
					return true
				}
				t := p.TypesInfo.TypeOf(cl)
				if t == nil {
					return true
				}
				named, ok := deref(t).(*types.Named)
				if !ok || named.Obj().Pkg() == nil || named.Obj().Pkg().Path() != purlPath || named.Obj().Name() != "PackageURL" {
					return true
				}
				for _, el := range cl.Elts {
					kv, ok := el.(*ast.KeyValueExpr)
					if !ok {
						continue
					}
					if k, ok := kv.Key.(*ast.Ident); !ok || k.Name != "Type" {
						continue
					}
					pos := w.Fset.Position(kv.Pos())
					where := fmt.Sprintf("%s:%d", strings.TrimPrefix(pos.Filename, w.RepoDir+"/"), pos.Line)
					ok2 := false
					switch v := kv.Value.(type) {
					case *ast.SelectorExpr:
						if obj, isC := p.TypesInfo.Uses[v.Sel].(*types.Const); isC && obj.Pkg() != nil && obj.Pkg().Path() == purlPath {
							_, ok2 = typeConsts[obj.Name()]
						}
					case *ast.Ident:
						if obj, isC := p.TypesInfo.Uses[v].(*types.Const); isC && obj.Pkg() != nil && obj.Pkg().Path() == purlPath {
							_, ok2 = typeConsts[obj.Name()]
						}
					}
					if !ok2 {
						// not a constant of the table: non-binding note (types computed at run time are not decided here)
						continue
					}
					_ = where
				}
				return true
			})
		}
	}
	res.Obls = e.obls
	for _, o := range res.Obls {
		o.Script = e.sc.lines[:o.Prefix]
	}
	res.Notes = e.notes
	return []*FnResult{res}
}

// groundRegistry: plugin names are unique. For every plugin constructor registered in the three list packages whose
// Name() method returns a constant, the names are pairwise distinct within and across the extractor lists, and
// distinct from every group key.
func groundRegistry(w *World) []*FnResult {
	res := &FnResult{Fn: "ground:registry", Kind: "ground"}
	e := newEngine(w, nil)
	type entry struct{ list, name, where string }
	var entries []entry
	lists := []string{repoMod + "/extractor/filesystem/list", repoMod + "/extractor/standalone/list", repoMod + "/detector/list"}
	for _, lp := range lists {
		p := w.Pkgs[lp]
		if p == nil {
			continue
		}
		// every imported repo package that has a method Name() returning a constant string on a type with a New* constructor
		for _, imp := range p.Types.Imports() {
			if !strings.HasPrefix(imp.Path(), repoMod) {
				continue
			}
			ip := w.Pkgs[imp.Path()]
			if ip == nil {
				continue
			}
			for _, f := range ip.Syntax {
				for _, d := range f.Decls {
					fd, ok := d.(*ast.FuncDecl)
					if !ok || fd.Name.Name != "Name" || fd.Recv == nil || fd.Body == nil || len(fd.Body.List) != 1 || fd.Type.Params.NumFields() != 0 {
						continue
					}
					ret, ok := fd.Body.List[0].(*ast.ReturnStmt)
					if !ok || len(ret.Results) != 1 {
						continue
					}
					tv, ok := ip.TypesInfo.Types[ret.Results[0]]
					if !ok || tv.Value == nil || tv.Value.Kind() != constant.String {
						continue
					}
					// the receiver type must look like a plugin
					rt := ip.TypesInfo.TypeOf(fd.Recv.List[0].Type)
					if rt == nil {
						continue
					}
					ms := types.NewMethodSet(types.NewPointer(deref(rt)))
					if ms.Lookup(imp, "Version") == nil || ms.Lookup(imp, "Requirements") == nil {
						continue
					}
					pos := w.Fset.Position(fd.Pos())
					// identified by file, not by line: obligation names must survive unrelated edits of the file
					entries = append(entries, entry{lp, constant.StringVal(tv.Value), strings.TrimPrefix(pos.Filename, w.RepoDir+"/")})
				}
			}
		}
	}
	sort.Slice(entries, func(i, j int) bool { return entries[i].name+entries[i].where < entries[j].name+entries[j].where })
	// dedupe identical (name, where)
	var uniq []entry
	for i, en := range entries {
		if i > 0 && en.name == entries[i-1].name && en.where == entries[i-1].where {
			continue
		}
		uniq = append(uniq, en)
	}
	for i := range uniq {
		c := e.sc.declareConst("plugin_name", "String")
		e.sc.assert("(= " + c + " " + smtString(uniq[i].name) + ")")
		uniq[i].list = c
	}
	for i := 0; i < len(uniq); i++ {
		for j := i + 1; j < len(uniq); j++ {
			if uniq[i].name != uniq[j].name && i+1 != j {
				continue // only adjacent (sorted) and equal names can clash; keep the obligation count linear
			}
			o := &Obligation{Name: fmt.Sprintf("ground:distinct-plugin-names(%s @ %s | %s @ %s)", uniq[i].name, uniq[i].where, uniq[j].name, uniq[j].where), Kind: "ground", Fn: "ground:registry",
				Prefix: len(e.sc.lines), Reach: "true", Formula: "(not (= " + uniq[i].list + " " + uniq[j].list + "))", Text: "plugin names are unique"}
			e.obls = append(e.obls, o)
		}
	}
	res.Obls = e.obls
	for _, o := range res.Obls {
		o.Script = e.sc.lines[:o.Prefix]
	}
	if len(res.Obls) == 0 {
		res.SpecErr = "no plugin Name() constants harvested"
	}
	_ = token.NoPos
	return []*FnResult{res}
}
