package main

// SMT script builder: sorts, on-demand declarations, heaps.

import (
	"fmt"
	"go/types"
	"sort"
	"strings"
)

// Val is a symbolic value: an SMT term with its sort, optionally a structural address or closure.
type Val struct {
	T     string // SMT term
	S     string // SMT sort
	Addr  *Addr  // non-nil: this value is the address of a cell / heap location
	Clo   *Closure
	Tuple []Val
	GoT   types.Type // static Go type when known (spec side)
}

// Addr is a structural address.
type Addr struct {
	Kind   int         // aCell, aField, aElem, aPtr, aGlobal
	Cell   interface{} // *ssa.Alloc key for aCell
	Ref    string      // pointer term (aField, aPtr), slice backing ref (aElem)
	Idx    string      // element index incl. offset (aElem)
	Heap   string      // heap name
	HSort  string      // sort of the location's content at heap level
	Path   []pathStep  // selectors inside the located value (nested struct fields / array elems)
	ElemT  types.Type  // Go type of the addressed location (after Path)
	PtrVal string      // term of the pointer itself where it has one
}

type pathStep struct {
	Field int        // field index, or -1 for array index
	Idx   string     // array index term
	T     types.Type // type of the container stepped into (struct or array)
}

const (
	aCell = iota
	aField
	aElem
	aPtr
	aGlobal
)

type Closure struct {
	Fn       interface{} // *ssa.Function
	Bindings []Val
	Spec     SExpr    // functional specification ($k = k-th parameter), verified where the closure is created
	SpecEnv  *SpecEnv // environment of the enclosing function at the creation point
}

type Script struct {
	lines    []string
	declared map[string]bool
	n        int
	sorts    map[string]bool
	order    []string
}

func newScript() *Script {
	s := &Script{declared: map[string]bool{}, sorts: map[string]bool{}}
	s.lines = append(s.lines, preamble...)
	return s
}

var preamble = []string{
	"(set-option :produce-models true)",
	"(set-logic ALL)",
	"(declare-datatypes ((Slice 0)) (((mk_slice (s_ref Int) (s_off Int) (s_len Int) (s_cap Int)))))",
	"(define-fun godiv ((x Int) (y Int)) Int (ite (>= x 0) (ite (> y 0) (div x y) (- (div x (- y)))) (ite (> y 0) (- (div (- x) y)) (div (- x) (- y)))))",
	"(define-fun gomod ((x Int) (y Int)) Int (- x (* y (godiv x y))))",
	"(define-fun sgn ((x Int)) Int (ite (< x 0) (- 1) (ite (> x 0) 1 0)))",
	"(define-fun imax ((x Int) (y Int)) Int (ite (>= x y) x y))",
	"(define-fun imin ((x Int) (y Int)) Int (ite (<= x y) x y))",
	"(declare-fun dyntype (Int) Int)",
	"(assert (= (dyntype 0) 0))",
}

// lazyPreamble: declarations and axioms included in a query only when the symbol occurs in it.
var lazyPreamble = []struct {
	sym   string
	lines []string
}{
	{"errIs", []string{
		"(declare-fun errIs (Int Int) Bool)",
		"(assert (forall ((e Int)) (! (=> (not (= e 0)) (errIs e e)) :pattern ((errIs e e)))))",
		"(assert (forall ((t Int)) (! (= (errIs 0 t) (= t 0)) :pattern ((errIs 0 t)))))",
	}},
	{"bitand", []string{
		"(declare-fun bitand (Int Int) Int)",
		"(assert (forall ((x Int) (y Int)) (! (=> (and (>= x 0) (>= y 0)) (and (>= (bitand x y) 0) (<= (bitand x y) x) (<= (bitand x y) y))) :pattern ((bitand x y)))))",
		"(assert (forall ((x Int)) (! (= (bitand x 0) 0) :pattern ((bitand x 0)))))",
	}},
	{"ix", []string{
		"(declare-fun ix (Int Int) Int)",
		"(assert (forall ((o Int) (j Int)) (! (= (ix o j) (+ o j)) :pattern ((ix o j)))))",
	}},
	{"deepEqual", []string{
		"(declare-fun deepEqual (Int Int) Bool)",
		"(assert (forall ((a Int)) (! (deepEqual a a) :pattern ((deepEqual a a)))))",
		"(assert (forall ((a Int) (b Int)) (! (= (deepEqual a b) (deepEqual b a)) :pattern ((deepEqual a b)))))",
		"(assert (forall ((a Int) (b Int) (c Int)) (! (=> (and (deepEqual a b) (deepEqual b c)) (deepEqual a c)) :pattern ((deepEqual a b) (deepEqual b c)))))",
	}},
	{"bitor", []string{
		"(declare-fun bitor (Int Int) Int)",
		"(assert (forall ((x Int) (y Int)) (! (and (= (bitand (bitor x y) y) y) (= (bitand (bitor x y) x) x)) :pattern ((bitor x y)))))",
	}},
	{"bitxor", []string{"(declare-fun bitxor (Int Int) Int)"}},
	{"bitandnot", []string{"(declare-fun bitandnot (Int Int) Int)"}},
	{"shl", []string{"(declare-fun shl (Int Int) Int)"}},
	{"shr", []string{"(declare-fun shr (Int Int) Int)"}},
}

func (s *Script) emit(line string) { s.lines = append(s.lines, line) }

func (s *Script) fresh(prefix string) string {
	s.n++
	return fmt.Sprintf("%s!%d", sanitize(prefix), s.n)
}

func sanitize(x string) string {
	var b strings.Builder
	for _, c := range x {
		switch {
		case c >= 'a' && c <= 'z', c >= 'A' && c <= 'Z', c >= '0' && c <= '9', c == '_', c == '.', c == '$':
			b.WriteRune(c)
		case c == '/':
			b.WriteRune('.')
		default:
			b.WriteRune('_')
		}
	}
	return b.String()
}

// declareConst declares a fresh constant of the given sort and returns its name.
func (s *Script) declareConst(prefix, sort string) string {
	n := s.fresh(prefix)
	s.emit(fmt.Sprintf("(declare-const %s %s)", n, sort))
	return n
}

// define introduces a name for a term (keeps VCs linear in size).
func (s *Script) define(prefix, sort, term string) string {
	if isAtom(term) {
		return term
	}
	n := s.fresh(prefix)
	if strings.HasPrefix(term, "(ite ") && sort != "Bool" {
		// a real constant rather than a macro, so that the name can occur in quantifier patterns
		s.emit(fmt.Sprintf("(declare-const %s %s)", n, sort))
		s.emit(fmt.Sprintf("(assert (= %s %s))", n, term))
		return n
	}
	s.emit(fmt.Sprintf("(define-fun %s () %s %s)", n, sort, term))
	return n
}

func isAtom(t string) bool {
	if t == "" {
		return true
	}
	if t[0] == '"' {
		// a string literal (quotes inside are doubled): atomic
		return len(t) >= 2 && t[len(t)-1] == '"' && strings.Count(t, "\"")%2 == 0
	}
	if t[0] == '(' {
		return false
	}
	return !strings.ContainsAny(t, " ")
}

func (s *Script) declareFun(name string, args []string, res string) {
	if s.declared[name] {
		return
	}
	s.declared[name] = true
	s.emit(fmt.Sprintf("(declare-fun %s (%s) %s)", name, strings.Join(args, " "), res))
}

func (s *Script) assert(term string) { s.emit("(assert " + term + ")") }

// ---------- helpers to build terms ----------

func and(xs ...string) string {
	var ys []string
	for _, x := range xs {
		if x == "true" || x == "" {
			continue
		}
		if x == "false" {
			return "false"
		}
		ys = append(ys, x)
	}
	if len(ys) == 0 {
		return "true"
	}
	if len(ys) == 1 {
		return ys[0]
	}
	return "(and " + strings.Join(ys, " ") + ")"
}

func or(xs ...string) string {
	var ys []string
	for _, x := range xs {
		if x == "false" || x == "" {
			continue
		}
		if x == "true" {
			return "true"
		}
		ys = append(ys, x)
	}
	if len(ys) == 0 {
		return "false"
	}
	if len(ys) == 1 {
		return ys[0]
	}
	return "(or " + strings.Join(ys, " ") + ")"
}

func not(x string) string {
	if x == "true" {
		return "false"
	}
	if x == "false" {
		return "true"
	}
	if strings.HasPrefix(x, "(not ") && balancedTail(x[5:len(x)-1]) {
		return x[5 : len(x)-1]
	}
	return "(not " + x + ")"
}

func balancedTail(x string) bool {
	d := 0
	inStr := false
	for i := 0; i < len(x); i++ {
		c := x[i]
		if c == '"' {
			inStr = !inStr
		}
		if inStr {
			continue
		}
		if c == '(' {
			d++
		} else if c == ')' {
			d--
			if d < 0 {
				return false
			}
			if d == 0 && i != len(x)-1 {
				return false
			}
		} else if d == 0 && c == ' ' {
			return false
		}
	}
	return d == 0
}

func implies(a, b string) string {
	if a == "true" {
		return b
	}
	if a == "false" || b == "true" {
		return "true"
	}
	return "(=> " + a + " " + b + ")"
}

func eq(a, b string) string {
	if a == b {
		return "true"
	}
	return "(= " + a + " " + b + ")"
}

func ite(c, a, b string) string {
	if c == "true" {
		return a
	}
	if c == "false" {
		return b
	}
	if a == b {
		return a
	}
	return "(ite " + c + " " + a + " " + b + ")"
}

func sel(arr, idx string) string      { return "(select " + arr + " " + idx + ")" }
func store(arr, idx, v string) string { return "(store " + arr + " " + idx + " " + v + ")" }
func app(f string, args ...string) string {
	if len(args) == 0 {
		return f
	}
	return "(" + f + " " + strings.Join(args, " ") + ")"
}
func intLit(n int64) string {
	if n < 0 {
		return fmt.Sprintf("(- %d)", -n)
	}
	return fmt.Sprintf("%d", n)
}

func smtString(s string) string {
	var b strings.Builder
	b.WriteByte('"')
	for i := 0; i < len(s); i++ {
		c := s[i]
		switch {
		case c == '"':
			b.WriteString(`""`)
		case c >= 0x20 && c < 0x7f && c != '\\':
			b.WriteByte(c)
		default:
			fmt.Fprintf(&b, `\u{%x}`, c)
		}
	}
	b.WriteByte('"')
	return b.String()
}

func sortedKeys[V any](m map[string]V) []string {
	ks := make([]string, 0, len(m))
	for k := range m {
		ks = append(ks, k)
	}
	sort.Strings(ks)
	return ks
}
