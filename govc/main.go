package main

import (
	"regexp"
	"encoding/json"
	"flag"
	"fmt"
	"os"
	"path/filepath"
	"runtime"
	"sort"
	"strconv"
	"strings"
	"time"

	"golang.org/x/tools/go/ssa"
)

type PropConfig struct {
	Property  string   `json:"property"`
	Packages  []string `json:"packages"`
	Functions []string `json:"functions"`         // display names of functions under contract; "*" = every contract in the loaded packages
	FnPkgs    []string `json:"function_packages"` // with "*": restrict to contracts of these package paths (relative to the module)
	Labels    []string `json:"labels"`            // if non-empty: only postconditions with one of these labels are binding for this property
	Lemmas    []string `json:"lemmas"`            // lemma names ("pkg.lemma:name"), "*" = all in function_packages
	Sweep     *struct {
		Packages []string `json:"packages"` // package path prefixes (relative to the module) swept without annotations
	} `json:"sweep"`
	Bounded []struct {
		Name      string `json:"name"`
		TestFile  string `json:"test_file"` // relative to /verif
		PkgDir    string `json:"pkg_dir"`   // relative to the repository
		QuickN    int    `json:"quick_n"`
		ThoroughN int    `json:"thorough_n"`
		Bound     string `json:"bound"`
	} `json:"bounded"`
	Ground     []string `json:"ground"`
	Notes      []string `json:"notes"`
	NotDecided []string `json:"not_decided"`
	QuickMs    int      `json:"quick_ms"`
	FullMs     int      `json:"full_ms"`
	ThoroughMs int      `json:"thorough_ms"`
}

type KnownFinding struct {
	Property    string   `json:"property"`
	Obligations []string `json:"obligations"`
	What        string   `json:"what"`
	Input       string   `json:"failing_input"`
	Status      string   `json:"status"` // "open" or "fixed"
	BoundedRe   string   `json:"bounded_violation_regex,omitempty"` // open findings of a bounded stand-in: matches its BOUNDED-VIOLATION lines
	Commit      string   `json:"commit,omitempty"`
}

var verifDir = "/verif"

func main() {
	if len(os.Args) < 2 {
		fmt.Fprintln(os.Stderr, "usage: govc check <property> [--tier quick|thorough] | govc replay <file> | govc dump <pkg> <func>")
		os.Exit(2)
	}
	if d := os.Getenv("VERIF_DIR"); d != "" {
		verifDir = d
	}
	switch os.Args[1] {
	case "check":
		os.Exit(cmdCheck(os.Args[2:]))
	case "replay":
		os.Exit(cmdReplay(os.Args[2:]))
	case "dump":
		os.Exit(cmdDump(os.Args[2:]))
	default:
		fmt.Fprintln(os.Stderr, "unknown command", os.Args[1])
		os.Exit(2)
	}
}

func cmdDump(args []string) int {
	w, err := loadWorld("/repo", []string{args[0]}, nil)
	if err != nil {
		fmt.Fprintln(os.Stderr, err)
		return 2
	}
	for _, sp := range w.Prog.AllPackages() {
		if sp.Pkg == nil || !strings.HasPrefix(sp.Pkg.Path(), repoMod) {
			continue
		}
		for fn := range allFuncsOf(w, sp) {
			if len(args) < 2 || strings.Contains(funcDisplayName(fn), args[1]) {
				fn.WriteTo(os.Stdout)
			}
		}
	}
	return 0
}

func allFuncsOf(w *World, sp *ssa.Package) map[*ssa.Function]bool {
	out := map[*ssa.Function]bool{}
	var add func(f *ssa.Function)
	add = func(f *ssa.Function) {
		if f == nil || out[f] {
			return
		}
		out[f] = true
		for _, a := range f.AnonFuncs {
			add(a)
		}
	}
	for _, m := range sp.Members {
		switch x := m.(type) {
		case *ssa.Function:
			add(x)
		case *ssa.Type:
			for _, t := range []interface{ NumMethods() int }{} {
				_ = t
			}
			mset := w.Prog.MethodSets.MethodSet(x.Type())
			for i := 0; i < mset.Len(); i++ {
				add(w.Prog.MethodValue(mset.At(i)))
			}
			pset := w.Prog.MethodSets.MethodSet(typesPointer(x.Type()))
			for i := 0; i < pset.Len(); i++ {
				add(w.Prog.MethodValue(pset.At(i)))
			}
		}
	}
	// keep only functions defined in this package (drop promoted wrappers)
	for f := range out {
		if f.Pkg != sp && f.Parent() == nil {
			delete(out, f)
		}
		if f.Synthetic != "" && !strings.Contains(f.Synthetic, "instance") && f.Name() != "init" {
			delete(out, f)
		}
	}
	return out
}

func cmdCheck(args []string) int {
	fs := flag.NewFlagSet("check", flag.ExitOnError)
	tier := fs.String("tier", envOr("VERIF_TIER", "quick"), "quick|thorough")
	repo := fs.String("repo", "/repo", "repository root")
	keep := fs.Bool("keep", false, "keep SMT files")
	verbose := fs.Bool("v", false, "verbose")
	updateBaseline := fs.Bool("update-baseline", false, "rewrite obligations/<prop>.expected from this run (maintainer use only)")
	var prop string
	if len(args) > 0 && !strings.HasPrefix(args[0], "-") {
		prop = args[0]
		args = args[1:]
	}
	fs.Parse(args)
	if prop == "" {
		fmt.Fprintln(os.Stderr, "property id required")
		return 2
	}
	seed, _ := strconv.Atoi(envOr("VERIF_SEED", "0"))
	t0 := time.Now()
	cfgData, err := os.ReadFile(filepath.Join(verifDir, "props", prop+".json"))
	if err != nil {
		fmt.Fprintln(os.Stderr, err)
		return 2
	}
	var cfg PropConfig
	if err := json.Unmarshal(cfgData, &cfg); err != nil {
		fmt.Fprintln(os.Stderr, "bad property config:", err)
		return 2
	}
	w, err := loadWorld(*repo, cfg.Packages, nil)
	if err != nil {
		fmt.Fprintln(os.Stderr, "ENGINE-ERROR: cannot load repository:", err)
		return 2
	}
	if err := w.parseContracts(); err != nil {
		fmt.Fprintln(os.Stderr, "ENGINE-ERROR: contracts:", err)
		// a contract whose target vanished: undecided, not a violation
		return writeUndecided(prop, *tier, seed, t0, err.Error())
	}
	for _, m := range w.MissingTargets {
		fmt.Printf("UNDECIDED: contract target not found on this tree (its obligations are not generated): %s\n", m)
	}
	if data, err := os.ReadFile(filepath.Join(verifDir, "obligations", prop+".locals")); err == nil {
		_ = json.Unmarshal(data, &w.BaseLocals)
	}
	loadSec := time.Since(t0).Seconds()

	var results []*FnResult
	// functions under contract
	want := map[string]bool{}
	star := false
	for _, f := range cfg.Functions {
		if f == "*" {
			star = true
		}
		want[f] = true
	}
	inPkgs := func(path string) bool {
		if len(cfg.FnPkgs) == 0 {
			return true
		}
		for _, p := range cfg.FnPkgs {
			if path == repoMod+"/"+p || (p == "." && path == repoMod) {
				return true
			}
		}
		return false
	}
	seenC := map[*Contract]bool{}
	var targets []*ssa.Function
	for fn, c := range w.Contracts {
		if len(fn.Blocks) == 0 || c.Trusted {
			continue
		}
		if fn.TypeParams().Len() > 0 && len(fn.TypeArgs()) == 0 {
			continue
		}
		if isGenericRecv(fn) {
			continue
		}
		name := funcDisplayName(fn)
		if (star && inPkgs(c.Pkg.PkgPath)) || want[name] {
			targets = append(targets, fn)
			seenC[c] = true
			delete(want, name)
		}
	}
	delete(want, "*")
	sort.Slice(targets, func(i, j int) bool { return funcDisplayName(targets[i]) < funcDisplayName(targets[j]) })
	var missing []string
	for f := range want {
		missing = append(missing, f)
	}
	sort.Strings(missing)
	for _, fn := range targets {
		r := verifyFunction(w, fn, w.Contracts[fn], false)
		if len(cfg.Labels) > 0 {
			keep := r.Obls[:0]
			for _, o := range r.Obls {
				if o.Kind == "post" && !labelIn(o.Text, cfg.Labels) {
					continue
				}
				keep = append(keep, o)
			}
			r.Obls = keep
		}
		results = append(results, r)
	}
	for _, l := range w.Lemmas {
		name := l.Pkg.Types.Name() + ".lemma:" + l.Name
		all := false
		sel := false
		for _, x := range cfg.Lemmas {
			if x == "*" && inPkgs(l.Pkg.PkgPath) {
				all = true
			}
			if x == name {
				sel = true
			}
		}
		if all || sel {
			results = append(results, verifyLemma(w, l))
		}
	}
	if cfg.Sweep != nil {
		skip := map[*ssa.Function]bool{}
		for _, fn := range targets {
			skip[fn] = true
		}
		sw := runSweep(w, cfg.Sweep.Packages, skip)
		if base := loadBaseline(prop); *tier == "quick" && len(base) > 0 && !*updateBaseline {
			// quick tier: the binding (baseline) sweep obligations are discharged, plus obligations that are new on this
			// tree (neither proved nor recorded as unproved when the baseline was taken)
			noise := loadNameList(prop + ".unproved")
			for _, r := range sw {
				keep := r.Obls[:0]
				for _, o := range r.Obls {
					if base[o.Name] || !noise[o.Name] {
						keep = append(keep, o)
					}
				}
				r.Obls = keep
			}
		}
		results = append(results, sw...)
	}
	if base := loadBaseline(prop); *tier == "quick" && len(base) > 0 && !*updateBaseline {
		// quick tier: safety obligations of functions under contract that were undecided when the baseline was taken
		// (non-binding) are not attempted again; the thorough tier tries them
		noise := loadNameList(prop + ".unproved")
		for _, r := range results {
			if r.Kind != "contract" {
				continue
			}
			keep := r.Obls[:0]
			for _, o := range r.Obls {
				if !base[o.Name] && noise[o.Name] && (isSafetyKind(o.Kind) || o.Kind == "pre-of") {
					continue
				}
				keep = append(keep, o)
			}
			r.Obls = keep
		}
	}
	if base := loadBaseline(prop); *tier == "thorough" && len(base) > 0 && !*updateBaseline {
		// thorough tier: non-binding safety / callee-precondition obligations of functions under contract that were
		// undecided when the baseline was taken are tried again, but with a short budget
		noise := loadNameList(prop + ".unproved")
		for _, r := range results {
			if r.Kind != "contract" {
				continue
			}
			for _, o := range r.Obls {
				if !base[o.Name] && noise[o.Name] && (isSafetyKind(o.Kind) || o.Kind == "pre-of") {
					o.CapMs = 20000
				}
			}
		}
	}
	for _, g := range cfg.Ground {
		results = append(results, runGround(w, g)...)
	}
	genSec := time.Since(t0).Seconds() - loadSec

	// solve
	quickMs, fullMs := 3000, 10000
	if cfg.QuickMs > 0 {
		quickMs = cfg.QuickMs
	}
	if cfg.FullMs > 0 {
		fullMs = cfg.FullMs
	}
	if *tier == "thorough" {
		fullMs = 120000
		if cfg.ThoroughMs > 0 {
			fullMs = cfg.ThoroughMs
		}
	}
	work, _ := os.MkdirTemp("", "govc-"+prop+"-")
	if *keep {
		fmt.Println("SMT files in", work)
	} else {
		defer os.RemoveAll(work)
	}
	par := runtime.NumCPU() / 2
	if par < 2 {
		par = 2
	}
	solveAll(results, solveOpts{quickMs: quickMs, fullMs: fullMs, workDir: work, keepFiles: *keep, parallel: par})

	var bounded []BoundedResult
	for _, b := range cfg.Bounded {
		n := b.QuickN
		if *tier == "thorough" {
			n = b.ThoroughN
		}
		src, err := os.ReadFile(filepath.Join(verifDir, b.TestFile))
		if err != nil {
			fmt.Fprintln(os.Stderr, "ENGINE-ERROR: bounded stand-in:", err)
			return 2
		}
		tb := time.Now()
		cmdline, out := runOverlayTest(w, filepath.Join(w.RepoDir, b.PkgDir), string(src), "TestVerifBounded", fmt.Sprintf("VERIF_BOUNDED_N=%d", n))
		br := BoundedResult{Name: b.Name, Bound: fmt.Sprintf("%s (N=%d)", b.Bound, n), Command: cmdline, Seconds: time.Since(tb).Seconds()}
		for _, ln := range strings.Split(out, "\n") {
			ln = strings.TrimSpace(ln)
			if strings.HasPrefix(ln, "BOUNDED-VIOLATION") {
				known := false
				for _, k := range loadKnownFindings() {
					if k.Property == prop && k.Status == "open" && k.BoundedRe != "" {
						if re, err := regexp.Compile(k.BoundedRe); err == nil && re.MatchString(ln) {
							known = true
							br.KnownHits++
						}
					}
				}
				if !known {
					br.Violations = append(br.Violations, ln)
				}
			}
			if strings.HasPrefix(ln, "BOUNDED-SUMMARY") {
				br.Summary = ln
				fmt.Sscanf(ln, "BOUNDED-SUMMARY evaluations=%d", &br.Evaluations)
			}
		}
		if br.Summary == "" {
			br.Error = tail(out, 1500)
		}
		bounded = append(bounded, br)
	}
	return report(prop, &cfg, w, results, missing, *tier, seed, t0, loadSec, genSec, *verbose, *updateBaseline, bounded)
}

func envOr(k, d string) string {
	if v := os.Getenv(k); v != "" {
		return v
	}
	return d
}

func loadKnownFindings() []KnownFinding {
	var kf []KnownFinding
	data, err := os.ReadFile(filepath.Join(verifDir, "known-findings.json"))
	if err != nil {
		return nil
	}
	var wrap struct {
		Findings []KnownFinding `json:"findings"`
	}
	if json.Unmarshal(data, &wrap) == nil {
		kf = wrap.Findings
	}
	return kf
}

func loadBaseline(prop string) map[string]bool { return loadNameList(prop + ".expected") }

func loadNameList(file string) map[string]bool {
	out := map[string]bool{}
	data, err := os.ReadFile(filepath.Join(verifDir, "obligations", file))
	if err != nil {
		return out
	}
	for _, l := range strings.Split(string(data), "\n") {
		l = strings.TrimSpace(l)
		if l != "" && !strings.HasPrefix(l, "//") {
			out[l] = true
		}
	}
	return out
}

func writeUndecided(prop, tier string, seed int, t0 time.Time, why string) int {
	fmt.Printf("UNDECIDED property=%s: %s\n", prop, why)
	return 2
}

func labelIn(text string, labels []string) bool {
	if !strings.HasPrefix(text, "[") {
		return true
	}
	i := strings.Index(text, "]")
	if i < 0 {
		return true
	}
	l := text[1:i]
	for _, x := range labels {
		if x == l {
			return true
		}
	}
	return false
}

// BoundedResult: outcome of a bounded stand-in (exhaustive check up to a stated bound through the real code).
type BoundedResult struct {
	Name        string   `json:"name"`
	Bound       string   `json:"bound"`
	Command     string   `json:"command"`
	Evaluations int      `json:"evaluations"`
	Summary     string   `json:"summary"`
	Violations  []string `json:"violations,omitempty"`
	KnownHits   int      `json:"known_finding_hits,omitempty"`
	Error       string   `json:"error,omitempty"`
	Seconds     float64  `json:"seconds"`
}
