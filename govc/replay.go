package main

// Replay of counterexamples against the real code: a Go test is generated from the solver's model (or from the
// concrete realisation of an abstract predicate) and executed inside the package with `go test -overlay`,
// so nothing is written into /repo.

import (
	"encoding/json"
	"fmt"
	"go/types"
	"os"
	"os/exec"
	"path/filepath"
	"regexp"
	"strconv"
	"strings"
	"time"

	"golang.org/x/tools/go/ssa"
)

var getValueRe = regexp.MustCompile(`\(([A-Za-z_][^\s()]*)\s+("(?:[^"]|"")*"|\(-\s*\d+\)|-?\d+|true|false)\)`)

func parseModelValues(out string) map[string]string {
	m := map[string]string{}
	for _, mt := range getValueRe.FindAllStringSubmatch(out, -1) {
		m[mt[1]] = mt[2]
	}
	return m
}

func smtStringToGo(raw string) (string, bool) {
	if len(raw) < 2 || raw[0] != '"' {
		return "", false
	}
	s := raw[1 : len(raw)-1]
	s = strings.ReplaceAll(s, `""`, `"`)
	var b strings.Builder
	for i := 0; i < len(s); i++ {
		if strings.HasPrefix(s[i:], `\u{`) {
			j := strings.Index(s[i:], "}")
			if j > 0 {
				v, err := strconv.ParseInt(s[i+3:i+j], 16, 32)
				if err == nil {
					if v > 255 {
						return "", false // not a byte: not replayable
					}
					b.WriteByte(byte(v))
					i += j
					continue
				}
			}
		}
		if strings.HasPrefix(s[i:], `\x`) && i+3 < len(s) {
			v, err := strconv.ParseInt(s[i+2:i+4], 16, 32)
			if err == nil {
				b.WriteByte(byte(v))
				i += 3
				continue
			}
		}
		b.WriteByte(s[i])
	}
	return b.String(), true
}

func smtIntToGo(raw string) (string, bool) {
	raw = strings.TrimSpace(raw)
	if strings.HasPrefix(raw, "(-") {
		raw = "-" + strings.TrimSpace(strings.TrimSuffix(strings.TrimPrefix(raw, "(-"), ")"))
	}
	if _, err := strconv.ParseInt(raw, 10, 64); err != nil {
		return "", false
	}
	return raw, true
}

// goArg builds a Go expression of type t from the model value of the SMT constant name (or a default).
func goArg(t types.Type, raw string, qual types.Qualifier) (string, bool) {
	switch u := t.Underlying().(type) {
	case *types.Basic:
		switch {
		case u.Info()&types.IsString != 0:
			if raw == "" {
				return `""`, true
			}
			s, ok := smtStringToGo(raw)
			if !ok {
				return "", false
			}
			return types.TypeString(t, qual) + "(" + strconv.Quote(s) + ")", true
		case u.Info()&types.IsInteger != 0:
			if raw == "" {
				return types.TypeString(t, qual) + "(0)", true
			}
			s, ok := smtIntToGo(raw)
			if !ok {
				return "", false
			}
			return types.TypeString(t, qual) + "(" + s + ")", true
		case u.Info()&types.IsBoolean != 0:
			if raw == "" {
				raw = "false"
			}
			return raw, true
		}
	case *types.Struct:
		return types.TypeString(t, qual) + "{}", true
	case *types.Pointer:
		if _, ok := u.Elem().Underlying().(*types.Struct); ok {
			return "new(" + types.TypeString(u.Elem(), qual) + ")", true
		}
		return "nil", true
	case *types.Slice, *types.Map, *types.Interface, *types.Signature, *types.Chan:
		return "nil", true
	}
	return "", false
}

func pkgDirOf(w *World, fn *ssa.Function) (dir, pkgName string, ok bool) {
	if fn == nil || fn.Pkg == nil {
		return "", "", false
	}
	p := w.Pkgs[fn.Pkg.Pkg.Path()]
	if p == nil || len(p.GoFiles) == 0 {
		return "", "", false
	}
	return filepath.Dir(p.GoFiles[0]), p.Types.Name(), true
}

func runOverlayTest(w *World, dir, testSrc, runName string, extraEnv ...string) (string, string) {
	tmp, err := os.MkdirTemp("", "govc-replay-")
	if err != nil {
		return "", err.Error()
	}
	defer os.RemoveAll(tmp)
	tf := filepath.Join(tmp, "zz_verif_replay_test.go")
	os.WriteFile(tf, []byte(testSrc), 0o644)
	ov := map[string]map[string]string{"Replace": {filepath.Join(dir, "zz_verif_replay_test.go"): tf}}
	ovData, _ := json.Marshal(ov)
	ovf := filepath.Join(tmp, "overlay.json")
	os.WriteFile(ovf, ovData, 0o644)
	rel, _ := filepath.Rel(w.RepoDir, dir)
	cmdline := fmt.Sprintf("cd %s && GOFLAGS=-mod=mod GOPROXY=off go test -overlay <overlay mapping %s/zz_verif_replay_test.go> -vet=off -count=1 -timeout 60s -run %s ./%s", w.RepoDir, rel, runName, rel)
	cmd := exec.Command("go", "test", "-overlay", ovf, "-vet=off", "-count=1", "-timeout", "60s", "-run", runName, "-v", "./"+rel)
	cmd.Dir = w.RepoDir
	cmd.Env = append(append(os.Environ(), "GOFLAGS=-mod=mod", "GOPROXY=off"), extraEnv...)
	done := make(chan struct{})
	var out []byte
	go func() { out, _ = cmd.CombinedOutput(); close(done) }()
	select {
	case <-done:
	case <-time.After(150 * time.Second):
		if cmd.Process != nil {
			cmd.Process.Kill()
		}
		<-done
	}
	return cmdline, string(out)
}

const replayMarker = "VERIF-REPLAY-REPRODUCED"

// tryReplay attempts to reproduce a failed obligation on the real code.
func tryReplay(w *World, prop string, o *Obligation, results []*FnResult) *Replay {
	fn := o.Top
	if fn == nil {
		return &Replay{Supported: false, Note: "no function attached to the obligation"}
	}
	dir, pkgName, ok := pkgDirOf(w, fn)
	if !ok {
		return &Replay{Supported: false, Note: "package directory not found"}
	}
	safety := map[string]bool{"nilderef": true, "index": true, "slice": true, "nilmap-write": true, "assert-type": true, "panic-reachable": true, "div-zero": true, "makeslice": true}
	if !safety[o.Kind] {
		return &Replay{Supported: false, Note: "replay of functional postconditions is not implemented for this function shape; the model is attached"}
	}
	// template 1: filesystem extractors - realise 'the decoder succeeded and left the target nil/empty' by canned documents
	if isExtractorMethod(fn) {
		return replayExtractor(w, fn, dir, pkgName, o)
	}
	// template 2: functions over scalars / zero-constructible values: call with the model's arguments
	return replayScalar(w, fn, dir, pkgName, o)
}

func isExtractorMethod(fn *ssa.Function) bool {
	if fn.Signature.Recv() == nil {
		return false
	}
	n, ok := deref(fn.Signature.Recv().Type()).(*types.Named)
	if !ok || n.Obj().Name() != "Extractor" {
		return false
	}
	return fn.Name() == "Extract" || strings.HasPrefix(fn.Name(), "extract")
}

func replayExtractor(w *World, fn *ssa.Function, dir, pkgName string, o *Obligation) *Replay {
	recvPtr := ""
	if _, isPtr := fn.Signature.Recv().Type().(*types.Pointer); isPtr {
		recvPtr = "&"
	}
	src := fmt.Sprintf(`package %s

import (
	"context"
	"fmt"
	"strings"
	"testing"

	vfs "github.com/google/osv-scalibr/extractor/filesystem"
)

func TestVerifReplay(t *testing.T) {
	docs := []string{"null", "~", "", "{}", "[]", "0", "\"\"", "[null]", "{\"packages\":null}", "<a/>", "\n\n", "a b c"}
	for _, doc := range docs {
		func() {
			defer func() {
				if r := recover(); r != nil {
					fmt.Printf("%s content=%%q panic=%%v\n", doc, r)
				}
			}()
			ex := %sExtractor{}
			_, _ = ex.Extract(context.Background(), &vfs.ScanInput{Path: "replay-input", Reader: strings.NewReader(doc)})
		}()
	}
}
`, pkgName, replayMarker, recvPtr)
	cmdline, out := runOverlayTest(w, dir, src, "TestVerifReplay")
	rp := &Replay{Supported: true, Command: cmdline, TestSource: src, Output: tail(out, 3000)}
	for _, ln := range strings.Split(out, "\n") {
		if strings.Contains(ln, replayMarker) {
			rp.Reproduced = true
			rp.Inputs += strings.TrimSpace(ln) + "\n"
		}
	}
	if !rp.Reproduced {
		rp.Note = "none of the canned documents made Extract panic"
	}
	return rp
}

func replayScalar(w *World, fn *ssa.Function, dir, pkgName string, o *Obligation) *Replay {
	vals := parseModelValues(o.Model + "\n" + o.Candidate)
	pkg := fn.Pkg.Pkg
	qual := func(p *types.Package) string {
		if p == pkg {
			return ""
		}
		return p.Name()
	}
	var args []string
	imports := map[string]bool{}
	for i, p := range fn.Params {
		raw := ""
		for name, v := range vals {
			if strings.HasPrefix(name, "p_"+sanitize(p.Name())+"!") {
				raw = v
			}
		}
		a, ok := goArg(p.Type(), raw, qual)
		if !ok {
			return &Replay{Supported: false, Note: fmt.Sprintf("parameter %d (%s) cannot be constructed from the model", i, p.Type())}
		}
		if n, ok := deref(p.Type()).(*types.Named); ok && n.Obj().Pkg() != nil && n.Obj().Pkg() != pkg {
			imports[n.Obj().Pkg().Path()] = true
		}
		args = append(args, a)
	}
	var call string
	if fn.Signature.Recv() != nil {
		if len(args) == 0 {
			return &Replay{Supported: false, Note: "method without receiver argument"}
		}
		call = "(" + args[0] + ")." + fn.Name() + "(" + strings.Join(args[1:], ", ") + ")"
	} else {
		call = fn.Name() + "(" + strings.Join(args, ", ") + ")"
	}
	var imps []string
	for p := range imports {
		imps = append(imps, strconv.Quote(p))
	}
	src := fmt.Sprintf(`package %s

import (
	"fmt"
	"testing"
	%s
)

func TestVerifReplay(t *testing.T) {
	defer func() {
		if r := recover(); r != nil {
			fmt.Printf("%s call=%%s panic=%%v\n", %s, r)
		}
	}()
	%s
}
`, pkgName, strings.Join(imps, "\n\t"), replayMarker, strconv.Quote(call), callStmt(fn, call))
	cmdline, out := runOverlayTest(w, dir, src, "TestVerifReplay")
	rp := &Replay{Supported: true, Command: cmdline, TestSource: src, Output: tail(out, 3000), Inputs: call}
	if strings.Contains(out, replayMarker) {
		rp.Reproduced = true
	} else {
		rp.Note = "the call built from the model did not panic (the model may rely on an abstraction)"
	}
	return rp
}

func callStmt(fn *ssa.Function, call string) string {
	n := fn.Signature.Results().Len()
	if n == 0 {
		return call
	}
	lhs := make([]string, n)
	for i := range lhs {
		lhs[i] = "_"
	}
	return strings.Join(lhs, ", ") + " = " + call
}

func tail(s string, n int) string {
	if len(s) > n {
		return s[len(s)-n:]
	}
	return s
}

func rerunReplay(rf *replayFile) int {
	if rf.Replay == nil || rf.Replay.TestSource == "" {
		return 1
	}
	w := &World{RepoDir: "/repo"}
	// recover the package directory from the recorded command
	m := regexp.MustCompile(`-run \S+ \./(\S+)`).FindStringSubmatch(rf.Replay.Command)
	if m == nil {
		fmt.Println("cannot recover package directory from the recorded command")
		return 1
	}
	_, out := runOverlayTest(w, filepath.Join("/repo", m[1]), rf.Replay.TestSource, "TestVerifReplay")
	fmt.Println(tail(out, 4000))
	if strings.Contains(out, replayMarker) {
		fmt.Println("replay: failure reproduced on the current tree")
		return 1
	}
	fmt.Println("replay: failure not reproduced on the current tree")
	return 0
}
