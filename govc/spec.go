package main

// Specification expression language: lexer, AST, parser.

import (
	"fmt"
	"strings"
)

type SExpr interface{}

type (
	SIdent struct{ Name string }
	SInt   struct{ V string }
	SStr   struct{ V string }
	SBool  struct{ V bool }
	SNil   struct{}
	SBin   struct {
		Op   string
		X, Y SExpr
	}
	SUn struct {
		Op string
		X  SExpr
	}
	SCall struct {
		Fun  SExpr
		Args []SExpr
	}
	SSel struct {
		X   SExpr
		Sel string
	}
	SIndex struct{ X, I SExpr }
	SSlice struct{ X, Lo, Hi SExpr }
	SQuant struct {
		All   bool
		Vars  []SVar
		Body  SExpr
		Trigs [][]SExpr
	}
	SCond struct{ C, A, B SExpr }
)

type SVar struct{ Name, Type string }

type tok struct {
	k string // "id","int","str","op","eof"
	s string
}

func lexSpec(src string) ([]tok, error) {
	var out []tok
	i := 0
	ops := []string{"<==>", "==>", "::", "&&", "||", "==", "!=", "<=", ">=", "<<", ">>", "&^"}
	for i < len(src) {
		c := src[i]
		switch {
		case c == ' ' || c == '\t' || c == '\n' || c == '\r':
			i++
		case c == '/' && i+1 < len(src) && src[i+1] == '/':
			for i < len(src) && src[i] != '\n' {
				i++
			}
		case isIdStart(c):
			j := i
			for j < len(src) && (isIdStart(src[j]) || (src[j] >= '0' && src[j] <= '9')) {
				j++
			}
			out = append(out, tok{"id", src[i:j]})
			i = j
		case c >= '0' && c <= '9':
			j := i
			for j < len(src) && ((src[j] >= '0' && src[j] <= '9') || src[j] == 'x' || (src[j] >= 'a' && src[j] <= 'f') || (src[j] >= 'A' && src[j] <= 'F') || src[j] == '_') {
				j++
			}
			out = append(out, tok{"int", src[i:j]})
			i = j
		case c == '"':
			j := i + 1
			var b strings.Builder
			for j < len(src) && src[j] != '"' {
				if src[j] == '\\' && j+1 < len(src) {
					j++
					switch src[j] {
					case 'n':
						b.WriteByte('\n')
					case 't':
						b.WriteByte('\t')
					case '0':
						b.WriteByte(0)
					default:
						b.WriteByte(src[j])
					}
				} else {
					b.WriteByte(src[j])
				}
				j++
			}
			if j >= len(src) {
				return nil, fmt.Errorf("unterminated string")
			}
			out = append(out, tok{"str", b.String()})
			i = j + 1
		case c == '\'':
			// rune literal -> int
			j := i + 1
			var v int
			if src[j] == '\\' {
				j++
				switch src[j] {
				case 'n':
					v = '\n'
				case 't':
					v = '\t'
				default:
					v = int(src[j])
				}
			} else {
				v = int(src[j])
			}
			j++
			if j >= len(src) || src[j] != '\'' {
				return nil, fmt.Errorf("bad rune literal")
			}
			out = append(out, tok{"int", fmt.Sprint(v)})
			i = j + 1
		default:
			matched := false
			for _, op := range ops {
				if strings.HasPrefix(src[i:], op) {
					out = append(out, tok{"op", op})
					i += len(op)
					matched = true
					break
				}
			}
			if !matched {
				out = append(out, tok{"op", string(c)})
				i++
			}
		}
	}
	out = append(out, tok{"eof", ""})
	return out, nil
}

func isIdStart(c byte) bool {
	return c == '_' || c == '$' || (c >= 'a' && c <= 'z') || (c >= 'A' && c <= 'Z')
}

type sparser struct {
	toks []tok
	p    int
}

func parseSpec(src string) (e SExpr, err error) {
	toks, err := lexSpec(src)
	if err != nil {
		return nil, err
	}
	ps := &sparser{toks: toks}
	defer func() {
		if r := recover(); r != nil {
			if pe, ok := r.(parseErr); ok {
				err = fmt.Errorf("spec parse error: %s in %q", string(pe), src)
				return
			}
			panic(r)
		}
	}()
	e = ps.expr()
	if ps.peek().k != "eof" {
		ps.fail("unexpected token " + ps.peek().s)
	}
	return e, nil
}

type parseErr string

func (p *sparser) fail(msg string) { panic(parseErr(msg)) }
func (p *sparser) peek() tok       { return p.toks[p.p] }
func (p *sparser) next() tok       { t := p.toks[p.p]; p.p++; return t }
func (p *sparser) isOp(s string) bool {
	t := p.peek()
	return t.k == "op" && t.s == s
}
func (p *sparser) isId(s string) bool {
	t := p.peek()
	return t.k == "id" && t.s == s
}
func (p *sparser) expect(s string) {
	if !p.isOp(s) {
		p.fail("expected " + s + " got " + p.peek().s)
	}
	p.next()
}

func (p *sparser) expr() SExpr { return p.iff() }

func (p *sparser) iff() SExpr {
	x := p.imp()
	for p.isOp("<==>") {
		p.next()
		y := p.imp()
		x = SBin{"<==>", x, y}
	}
	return x
}

func (p *sparser) imp() SExpr {
	x := p.cond()
	if p.isOp("==>") {
		p.next()
		y := p.imp()
		return SBin{"==>", x, y}
	}
	return x
}

func (p *sparser) cond() SExpr {
	c := p.orE()
	if p.isOp("?") {
		p.next()
		a := p.cond()
		p.expect(":")
		b := p.cond()
		return SCond{c, a, b}
	}
	return c
}

func (p *sparser) orE() SExpr {
	x := p.andE()
	for p.isOp("||") {
		p.next()
		x = SBin{"||", x, p.andE()}
	}
	return x
}

func (p *sparser) andE() SExpr {
	x := p.cmp()
	for p.isOp("&&") {
		p.next()
		x = SBin{"&&", x, p.cmp()}
	}
	return x
}

func (p *sparser) cmp() SExpr {
	x := p.add()
	for {
		t := p.peek()
		if t.k == "op" && (t.s == "==" || t.s == "!=" || t.s == "<" || t.s == "<=" || t.s == ">" || t.s == ">=") {
			p.next()
			x = SBin{t.s, x, p.add()}
			continue
		}
		return x
	}
}

func (p *sparser) add() SExpr {
	x := p.mul()
	for {
		t := p.peek()
		if t.k == "op" && (t.s == "+" || t.s == "-" || t.s == "|" || t.s == "^") {
			p.next()
			x = SBin{t.s, x, p.mul()}
			continue
		}
		return x
	}
}

func (p *sparser) mul() SExpr {
	x := p.unary()
	for {
		t := p.peek()
		if t.k == "op" && (t.s == "*" || t.s == "/" || t.s == "%" || t.s == "&" || t.s == "<<" || t.s == ">>" || t.s == "&^") {
			p.next()
			x = SBin{t.s, x, p.unary()}
			continue
		}
		return x
	}
}

func (p *sparser) unary() SExpr {
	t := p.peek()
	if t.k == "op" && (t.s == "!" || t.s == "-" || t.s == "*" || t.s == "&") {
		p.next()
		return SUn{t.s, p.unary()}
	}
	return p.postfix()
}

func (p *sparser) postfix() SExpr {
	x := p.primary()
	for {
		switch {
		case p.isOp("."):
			p.next()
			t := p.next()
			if t.k != "id" {
				p.fail("expected field name")
			}
			x = SSel{x, t.s}
		case p.isOp("("):
			p.next()
			var args []SExpr
			for !p.isOp(")") {
				args = append(args, p.expr())
				if p.isOp(",") {
					p.next()
				}
			}
			p.next()
			x = SCall{x, args}
		case p.isOp("["):
			p.next()
			var lo, hi SExpr
			if !p.isOp(":") {
				lo = p.expr()
			}
			if p.isOp(":") {
				p.next()
				if !p.isOp("]") {
					hi = p.expr()
				}
				p.expect("]")
				x = SSlice{x, lo, hi}
			} else {
				p.expect("]")
				x = SIndex{x, lo}
			}
		default:
			return x
		}
	}
}

func (p *sparser) primary() SExpr {
	t := p.next()
	switch t.k {
	case "int":
		return SInt{strings.ReplaceAll(t.s, "_", "")}
	case "str":
		return SStr{t.s}
	case "id":
		switch t.s {
		case "true":
			return SBool{true}
		case "false":
			return SBool{false}
		case "nil":
			return SNil{}
		case "forall", "exists":
			var vars []SVar
			for {
				n := p.next()
				if n.k != "id" {
					p.fail("expected bound variable name")
				}
				ty := p.typeText()
				vars = append(vars, SVar{n.s, ty})
				if p.isOp(",") {
					p.next()
					continue
				}
				break
			}
			p.expect("::")
			var trigs [][]SExpr
			for p.isOp("{") {
				p.next()
				var tr []SExpr
				for !p.isOp("}") {
					tr = append(tr, p.expr())
					if p.isOp(",") {
						p.next()
					}
				}
				p.next()
				trigs = append(trigs, tr)
			}
			body := p.expr()
			return SQuant{All: t.s == "forall", Vars: vars, Body: body, Trigs: trigs}
		}
		return SIdent{t.s}
	case "op":
		if t.s == "(" {
			x := p.expr()
			p.expect(")")
			return x
		}
	}
	p.fail("unexpected token " + t.s)
	return nil
}

// typeText collects a type expression up to ',' or '::'.
func (p *sparser) typeText() string {
	var b strings.Builder
	for {
		t := p.peek()
		if t.k == "eof" || (t.k == "op" && (t.s == "," || t.s == "::")) {
			break
		}
		b.WriteString(t.s)
		p.next()
	}
	return b.String()
}

func specString(e SExpr) string {
	switch x := e.(type) {
	case SIdent:
		return x.Name
	case SInt:
		return x.V
	case SStr:
		return fmt.Sprintf("%q", x.V)
	case SBool:
		return fmt.Sprint(x.V)
	case SNil:
		return "nil"
	case SBin:
		return "(" + specString(x.X) + " " + x.Op + " " + specString(x.Y) + ")"
	case SUn:
		return x.Op + specString(x.X)
	case SCall:
		var as []string
		for _, a := range x.Args {
			as = append(as, specString(a))
		}
		return specString(x.Fun) + "(" + strings.Join(as, ", ") + ")"
	case SSel:
		return specString(x.X) + "." + x.Sel
	case SIndex:
		return specString(x.X) + "[" + specString(x.I) + "]"
	case SSlice:
		return specString(x.X) + "[:]"
	case SQuant:
		q := "exists"
		if x.All {
			q = "forall"
		}
		return q + " … :: " + specString(x.Body)
	case SCond:
		return specString(x.C) + " ? " + specString(x.A) + " : " + specString(x.B)
	}
	return "?"
}
