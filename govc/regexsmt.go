package main

// Translation of Go regular expressions (literals known at VC-generation time) to SMT-LIB regular expressions.
// Strings model bytes; only patterns whose character classes are ASCII (or contain all of the non-ASCII range)
// are translated. Anything else stays uninterpreted.

import (
	"fmt"
	"regexp/syntax"
	"strings"
)

func smtChar(c rune) string {
	if c >= 0x20 && c < 0x7f && c != '"' && c != '\\' {
		return fmt.Sprintf("\"%c\"", c)
	}
	return fmt.Sprintf("\"\\u{%x}\"", c)
}

// classToSMT converts a list of rune ranges (pairs) to an SMT regex over single bytes.
func classToSMT(ranges []rune) (string, bool) {
	var parts []string
	for i := 0; i+1 < len(ranges); i += 2 {
		lo, hi := ranges[i], ranges[i+1]
		if lo > 0x7f {
			// non-ASCII part: must be the whole remaining range to be representable
			if lo == 0x80 && hi >= 0x10ffff {
				parts = append(parts, "(re.range \"\\u{80}\" \"\\u{ff}\")")
				continue
			}
			return "", false
		}
		if hi > 0x7f {
			if hi >= 0x10ffff {
				parts = append(parts, "(re.range "+smtChar(lo)+" \"\\u{ff}\")")
				continue
			}
			return "", false
		}
		if lo == hi {
			parts = append(parts, "(str.to_re "+smtChar(lo)+")")
		} else {
			parts = append(parts, "(re.range "+smtChar(lo)+" "+smtChar(hi)+")")
		}
	}
	if len(parts) == 0 {
		return "re.none", true
	}
	if len(parts) == 1 {
		return parts[0], true
	}
	return "(re.union " + strings.Join(parts, " ") + ")", true
}

func regexNodeToSMT(re *syntax.Regexp) (string, bool) {
	switch re.Op {
	case syntax.OpEmptyMatch:
		return "(str.to_re \"\")", true
	case syntax.OpLiteral:
		if re.Flags&syntax.FoldCase != 0 {
			var parts []string
			for _, r := range re.Rune {
				if r > 0x7f {
					return "", false
				}
				lo, up := r, r
				if r >= 'a' && r <= 'z' {
					up = r - 32
				} else if r >= 'A' && r <= 'Z' {
					lo = r + 32
				}
				if lo == up {
					parts = append(parts, "(str.to_re "+smtChar(r)+")")
				} else {
					parts = append(parts, "(re.union (str.to_re "+smtChar(lo)+") (str.to_re "+smtChar(up)+"))")
				}
			}
			if len(parts) == 1 {
				return parts[0], true
			}
			return "(re.++ " + strings.Join(parts, " ") + ")", true
		}
		for _, r := range re.Rune {
			if r > 0x7f {
				return "", false
			}
		}
		return "(str.to_re " + smtString(string(re.Rune)) + ")", true
	case syntax.OpCharClass:
		return classToSMT(re.Rune)
	case syntax.OpAnyChar:
		return "re.allchar", true
	case syntax.OpAnyCharNotNL:
		return "(re.diff re.allchar (str.to_re \"\\u{a}\"))", true
	case syntax.OpCapture:
		return regexNodeToSMT(re.Sub[0])
	case syntax.OpStar, syntax.OpPlus, syntax.OpQuest:
		s, ok := regexNodeToSMT(re.Sub[0])
		if !ok {
			return "", false
		}
		op := map[syntax.Op]string{syntax.OpStar: "re.*", syntax.OpPlus: "re.+", syntax.OpQuest: "re.opt"}[re.Op]
		return "(" + op + " " + s + ")", true
	case syntax.OpRepeat:
		s, ok := regexNodeToSMT(re.Sub[0])
		if !ok || re.Min > 20 || re.Max > 20 {
			return "", false
		}
		if re.Max < 0 {
			if re.Min == 0 {
				return "(re.* " + s + ")", true
			}
			return fmt.Sprintf("(re.++ ((_ re.^ %d) %s) (re.* %s))", re.Min, s, s), true
		}
		return fmt.Sprintf("((_ re.loop %d %d) %s)", re.Min, re.Max, s), true
	case syntax.OpConcat, syntax.OpAlternate:
		var parts []string
		for _, sub := range re.Sub {
			s, ok := regexNodeToSMT(sub)
			if !ok {
				return "", false
			}
			parts = append(parts, s)
		}
		op := "re.++"
		if re.Op == syntax.OpAlternate {
			op = "re.union"
		}
		if len(parts) == 1 {
			return parts[0], true
		}
		return "(" + op + " " + strings.Join(parts, " ") + ")", true
	}
	return "", false
}

// regexMatchSMT returns an SMT regular expression R such that MatchString(s) <=> (str.in_re s R).
func regexMatchSMT(pattern string) (string, bool) {
	re, err := syntax.Parse(pattern, syntax.Perl)
	if err != nil {
		return "", false
	}
	re = re.Simplify()
	subs := []*syntax.Regexp{re}
	if re.Op == syntax.OpConcat {
		subs = re.Sub
	}
	anchoredStart, anchoredEnd := false, false
	if len(subs) > 0 && subs[0].Op == syntax.OpBeginText {
		anchoredStart = true
		subs = subs[1:]
	}
	if len(subs) > 0 && subs[len(subs)-1].Op == syntax.OpEndText {
		anchoredEnd = true
		subs = subs[:len(subs)-1]
	}
	var parts []string
	if !anchoredStart {
		parts = append(parts, "re.all")
	}
	for _, s := range subs {
		t, ok := regexNodeToSMT(s)
		if !ok {
			return "", false
		}
		parts = append(parts, t)
	}
	if !anchoredEnd {
		parts = append(parts, "re.all")
	}
	if len(parts) == 0 {
		return "(str.to_re \"\")", true
	}
	if len(parts) == 1 {
		return parts[0], true
	}
	return "(re.++ " + strings.Join(parts, " ") + ")", true
}
