package main

import (
	"fmt"
	"go/types"
	"runtime/debug"
	"sort"
	"strings"

	"golang.org/x/tools/go/ssa"
)

type FnResult struct {
	Dropped  []string // contract clauses that could not be interpreted on this tree
	Fn       string
	Kind     string // "contract", "sweep", "lemma"
	Obls     []*Obligation
	Outside  string // reason the function is outside the supported subset
	SpecErr  string // contract could not be interpreted (engine/contract error, not a violation)
	Notes    []string
	Lines    []string
	Watch    []string
	NumLines int
}

func isRefLike(t types.Type) bool {
	switch t.Underlying().(type) {
	case *types.Pointer, *types.Map, *types.Chan, *types.Signature, *types.Interface:
		return true
	}
	return false
}

func (e *Engine) assumeAllocated(v Val, t types.Type, alloc string) {
	if t == nil {
		return
	}
	if isRefLike(t) && v.S == "Int" {
		e.sc.assert("(<= " + v.T + " " + alloc + ")")
	}
	if _, ok := t.Underlying().(*types.Slice); ok {
		e.sc.assert("(<= (s_ref " + v.T + ") " + alloc + ")")
	}
}

func verifyFunction(w *World, fn *ssa.Function, c *Contract, sweep bool) (res *FnResult) {
	res = &FnResult{Fn: funcDisplayName(fn), Kind: "contract"}
	if sweep {
		res.Kind = "sweep"
	}
	e := newEngine(w, fn)
	e.sweep = sweep
	defer func() {
		res.Notes = e.notes
		res.Lines = e.sc.lines
		res.Dropped = e.dropped
		if r := recover(); r != nil {
			switch x := r.(type) {
			case outsideSubset:
				res.Outside = x.why
				res.Obls = nil
			case specError:
				res.SpecErr = x.msg
				res.Obls = nil
			default:
				res.SpecErr = fmt.Sprintf("engine panic: %v\n%s", r, debug.Stack())
				res.Obls = nil
			}
		}
	}()
	if len(fn.Blocks) == 0 {
		e.reject("function has no body")
	}
	st := &State{Cells: map[ssa.Value]Val{}, Heaps: map[string]string{}, Reach: "true"}
	alloc0 := e.allocCounter(st)
	e.sc.assert("(>= " + alloc0 + " 0)")
	e.ghostInit = true
	var params []Val
	for i, p := range fn.Params {
		v := e.freshVal("p_"+p.Name(), p.Type())
		e.assumeAllocated(v, p.Type(), alloc0)
		if sweep && i == 0 && fn.Signature.Recv() != nil && isRefLike(p.Type()) {
			// sweep convention: methods are called on non-nil receivers
			e.sc.assert("(not (= " + v.T + " 0))")
		}
		params = append(params, v)
		res.Watch = append(res.Watch, v.T)
	}
	var free []Val
	for _, fv := range fn.FreeVars {
		v := e.freshVal("fv_"+fv.Name(), fv.Type())
		e.assumeAllocated(v, fv.Type(), alloc0)
		free = append(free, v)
	}
	fc := e.newFnCtx(fn)
	if c != nil {
		c = normalizeCallKeys(c, fn)
	}
	fc.contract = c
	fc.renames = localRenames(w, fn)
	if c != nil {
		fc.env = e.contractEnv(c, params, st, st)
	} else {
		fc.env = &SpecEnv{e: e, vars: map[string]Val{}, lets: map[string]SExpr{}, st: st, old: st, entryVals: map[string]Val{}}
	}
	fc.env.fc = fc
	e.emitAxioms(fc.env)
	if c != nil {
		for _, rq := range c.Requires {
			if t, ok := e.clauseTerm(fc.env, rq); ok {
				e.assume(st, t)
			}
		}
	}
	entry := st.clone()
	fc.entry = entry
	fc.params = params
	fc.env.old = entry
	exit, results := e.runFunction(fc, st, params, free)
	if c != nil {
		e.checkCallKeys(fc, c)
		post := e.contractEnv(c, params, exit, entry)
		post.bindResults(fn.Signature, results)
		for _, r := range results {
			if r.S != "Tuple" {
				res.Watch = append(res.Watch, r.T)
			}
		}
		for i, en := range c.Ensures {
			f, okc := e.clauseTerm(post, en)
			if !okc {
				continue
			}
			lbl := en.Label
			if lbl == "" {
				lbl = fmt.Sprint(i)
			}
			if strings.HasPrefix(lbl, "defn") {
				// a definitional clause: it says how a ghost variable (specification-only state, which the code
				// cannot assign) changes across the call; callers assume it, nothing is proved about it here
				e.w.Trusted["definitional ghost update of "+funcDisplayName(fn)+": "+en.Text] = true
				continue
			}
			e.addObl(fn, "post", "["+lbl+"] "+en.Text, fn.Pos(), exit.Reach, f)
		}
		if !c.ModAll {
			e.frameObligations(fc, c, params, entry, exit)
		}
	}
	// vacuity probe: the exit must be reachable under the assumptions
	if exit.Reach != "false" {
		o := &Obligation{Name: res.Fn + "#reach-exit", Kind: "reach", Fn: res.Fn, Prefix: len(e.sc.lines), Reach: exit.Reach, Formula: "false", Expect: "sat", Text: "exit reachable (vacuity probe)"}
		e.obls = append(e.obls, o)
	}
	res.Obls = e.obls
	for _, o := range res.Obls {
		o.Script = e.sc.lines[:o.Prefix]
	}
	return res
}

func (e *Engine) emitAxioms(env *SpecEnv) {
	for _, ax := range e.w.Axioms {
		aenv := &SpecEnv{e: e, vars: map[string]Val{}, lets: map[string]SExpr{}, st: env.st, old: env.st, pkg: ax.Pkg, pos: ax.Pos, entryVals: map[string]Val{}}
		if env.pkg == nil || ax.Pkg.PkgPath != env.pkg.PkgPath {
			continue
		}
		e.sc.assert(e.trSpec(aenv, ax.E).T)
		e.w.Trusted["axiom "+ax.Name+" ("+ax.Where+")"] = true
	}
}

// frameAllowed resolves the modifies clause of the contract under verification once (in the entry state).
func (e *Engine) frameAllowed(fc *fnCtx) map[string][]string {
	if fc.allowed != nil {
		return fc.allowed
	}
	c := fc.contract
	env := e.contractEnv(c, fc.params, fc.entry, fc.entry)
	allowed := map[string][]string{} // heap -> refs ("" = whole heap)
	for _, m := range c.Modifies {
		func() {
			var dummy string
			defer e.recoverClause("modifies "+specString(m), &dummy)
			for _, loc := range e.designatorLocs(env, m) {
				allowed[loc.heap] = append(allowed[loc.heap], loc.ref)
			}
		}()
	}
	fc.allowed = allowed
	return allowed
}

// frameFormula: heap n in state st agrees with the entry state everywhere the contract does not allow a change.
// ok=false when the whole heap may be modified.
func (e *Engine) frameFormula(fc *fnCtx, n string, st *State) (string, bool) {
	allowed := e.frameAllowed(fc)
	srt := e.heapSorts[n]
	h0, h1 := e.heapIn(fc.entry, n, srt), e.heapIn(st, n, srt)
	var refs []string
	for _, r := range allowed[n] {
		if r == "" {
			return "", false
		}
		refs = append(refs, r)
	}
	if h0 == h1 {
		return "true", true
	}
	scalar := strings.HasPrefix(n, "G_") || strings.HasPrefix(n, "GH_") || !strings.HasPrefix(srt, "(Array Int ")
	if scalar {
		return eq(h1, h0), true
	}
	conds := []string{"(<= r " + e.allocCounter(fc.entry) + ")"}
	for _, r := range refs {
		conds = append(conds, "(not (= r "+r+"))")
	}
	return "(forall ((r Int)) (! (=> " + and(conds...) + " (= (select " + h1 + " r) (select " + h0 + " r))) :pattern ((select " + h0 + " r))))", true
}

func (e *Engine) frameObligations(fc *fnCtx, c *Contract, params []Val, entry, exit *State) {
	if exit.Epoch != entry.Epoch {
		e.addObl(fc.fn, "frame", "* (a callee with unknown effects is reached; contract needs `modifies *`)", fc.fn.Pos(), exit.Reach, "false")
		return
	}
	for _, n := range sortedKeys(exit.Heaps) {
		if n == allocHeap || strings.HasPrefix(n, "$iter") {
			continue
		}
		f, ok := e.frameFormula(fc, n, exit)
		if !ok || f == "true" {
			continue
		}
		e.addObl(fc.fn, "frame", n, fc.fn.Pos(), exit.Reach, f)
	}
}

func verifyLemma(w *World, l *Lemma) (res *FnResult) {
	res = &FnResult{Fn: l.Pkg.Types.Name() + ".lemma:" + l.Name, Kind: "lemma"}
	e := newEngine(w, nil)
	defer func() {
		res.Notes = e.notes
		res.Lines = e.sc.lines
		if r := recover(); r != nil {
			switch x := r.(type) {
			case specError:
				res.SpecErr = x.msg
			case outsideSubset:
				res.Outside = x.why
			default:
				res.SpecErr = fmt.Sprintf("engine panic: %v\n%s", r, debug.Stack())
			}
			res.Obls = nil
		}
	}()
	st := &State{Cells: map[ssa.Value]Val{}, Heaps: map[string]string{}, Reach: "true"}
	env := &SpecEnv{e: e, vars: map[string]Val{}, lets: map[string]SExpr{}, st: st, old: st, pkg: l.Pkg, pos: l.Pos, entryVals: map[string]Val{}}
	for i, p := range l.Params {
		v := e.freshVal("l_"+p.Name, l.PTypes[i])
		v.GoT = l.PTypes[i]
		env.vars[p.Name] = v
		res.Watch = append(res.Watch, v.T)
	}
	e.emitAxioms(env)
	var reqs []string
	for _, rq := range l.Requires {
		reqs = append(reqs, e.trSpec(env, rq.E).T)
	}
	e.sc.assert(and(reqs...))
	// vacuity: requires satisfiable
	o := &Obligation{Name: res.Fn + "#requires-sat", Kind: "reach", Fn: res.Fn, Prefix: len(e.sc.lines), Reach: "true", Formula: "false", Expect: "sat", Text: "lemma premises satisfiable (vacuity probe)"}
	e.obls = append(e.obls, o)
	for i, en := range l.Ensures {
		f := e.trSpec(env, en.E).T
		lbl := en.Label
		if lbl == "" {
			lbl = fmt.Sprint(i)
		}
		name := res.Fn + "#lemma[" + lbl + "]"
		ob := &Obligation{Name: name, Kind: "lemma", Fn: res.Fn, Prefix: len(e.sc.lines), Reach: "true", Formula: f, Text: en.Text, Where: l.Where}
		e.obls = append(e.obls, ob)
		e.sc.assert(f)
	}
	res.Obls = e.obls
	for _, o := range res.Obls {
		o.Script = e.sc.lines[:o.Prefix]
	}
	return res
}

func sortResults(rs []*FnResult) {
	sort.SliceStable(rs, func(i, j int) bool { return rs[i].Fn < rs[j].Fn })
}

// checkCallKeys: every assert/assume/preserves clause keyed by a call must name a call that exists in the function -
// a key that matches nothing would silently drop the clause.
func (e *Engine) checkCallKeys(fc *fnCtx, c *Contract) {
	have := map[string]bool{}
	counts := map[string]int{}
	for _, b := range fc.fn.Blocks {
		for _, ins := range b.Instrs {
			if call, ok := ins.(*ssa.Call); ok {
				if n := callName(call.Common()); n != "" {
					have[fmt.Sprintf("call %s#%d", n, counts[n])] = true
					counts[n]++
				}
			}
		}
	}
	var missing []string
	chk := func(k string) {
		if strings.HasPrefix(k, "call ") && !have[k] {
			missing = append(missing, k)
		}
	}
	for k := range c.Asserts {
		chk(k)
	}
	for k := range c.Assumes {
		chk(k)
	}
	for k := range c.Preserves {
		chk(k)
	}
	for k := range c.PreserveAll {
		chk(k)
	}
	if len(missing) > 0 {
		sort.Strings(missing)
		var all []string
		for k := range have {
			all = append(all, k)
		}
		sort.Strings(all)
		for _, k := range missing {
			why := fmt.Sprintf("%s: clause keyed by a call that does not occur in the function: %s (calls present: %s)", funcDisplayName(fc.fn), k, strings.Join(all, ", "))
			for _, cl := range c.Asserts[k] {
				e.dropClause(cl.Text, why)
			}
			for _, cl := range c.Assumes[k] {
				e.dropClause(cl.Text, why)
			}
			if _, ok := c.Preserves[k]; ok {
				e.dropClause("preserves["+k+"]", why)
			}
			if c.PreserveAll[k] {
				e.dropClause("preserves["+k+"] *", why)
			}
		}
	}
}

// normalizeCallKeys: "call f#k" with an unqualified f names a function of the package under verification.
func normalizeCallKeys(c *Contract, fn *ssa.Function) *Contract {
	if fn.Pkg == nil {
		return c
	}
	prefix := strings.ReplaceAll(fn.Pkg.Pkg.Path(), repoMod+"/", "") + "."
	norm := func(k string) string {
		if !strings.HasPrefix(k, "call ") {
			return k
		}
		name := strings.TrimPrefix(k, "call ")
		if strings.ContainsAny(name, "./(") {
			return k
		}
		return "call " + prefix + name
	}
	cc := *c
	if c.Asserts != nil {
		cc.Asserts = map[string][]Clause{}
		for k, v := range c.Asserts {
			cc.Asserts[norm(k)] = v
		}
	}
	if c.Assumes != nil {
		cc.Assumes = map[string][]Clause{}
		for k, v := range c.Assumes {
			cc.Assumes[norm(k)] = v
		}
	}
	if c.Preserves != nil {
		cc.Preserves = map[string][]SExpr{}
		for k, v := range c.Preserves {
			cc.Preserves[norm(k)] = v
		}
	}
	if c.PreserveAll != nil {
		cc.PreserveAll = map[string]bool{}
		for k, v := range c.PreserveAll {
			cc.PreserveAll[norm(k)] = v
		}
	}
	return &cc
}

// localsOf: the named local variables of fn (debug names of its allocs) with their types.
func localsOf(fn *ssa.Function) map[string]string {
	out := map[string]string{}
	for _, b := range fn.Blocks {
		for _, ins := range b.Instrs {
			if a, ok := ins.(*ssa.Alloc); ok && a.Comment != "" {
				t := types.TypeString(deref(a.Type()), nil)
				if old, dup := out[a.Comment]; dup && old != t {
					out[a.Comment] = "?"
					continue
				}
				out[a.Comment] = t
			}
		}
	}
	// the signatures of the function literals, in source order: `closure[k]` clauses are re-anchored by signature when
	// literals are added or removed (see closureBaseOrdinal)
	for i, af := range fn.AnonFuncs {
		out[fmt.Sprintf("$closure%d", i)] = af.Signature.String()
	}
	return out
}

// closureBaseOrdinal: the ordinal a function literal had when the baseline was taken. Literals are matched by signature
// and by their rank among the literals of that signature; if the number of literals of that signature changed, the
// ordinal is kept as it is (a specification that then no longer fits is dropped as a clause).
func closureBaseOrdinal(w *World, fn *ssa.Function, cur int) int {
	base := w.BaseLocals[funcDisplayName(fn)]
	if base == nil || cur < 0 || cur >= len(fn.AnonFuncs) {
		return cur
	}
	var bsigs []string
	for i := 0; ; i++ {
		sg, ok := base[fmt.Sprintf("$closure%d", i)]
		if !ok {
			break
		}
		bsigs = append(bsigs, sg)
	}
	if len(bsigs) == 0 {
		return cur
	}
	sig := fn.AnonFuncs[cur].Signature.String()
	rank, ncur := 0, 0
	for i, af := range fn.AnonFuncs {
		if af.Signature.String() == sig {
			if i < cur {
				rank++
			}
			ncur++
		}
	}
	var bidx []int
	for i, sg := range bsigs {
		if sg == sig {
			bidx = append(bidx, i)
		}
	}
	if len(bidx) != ncur {
		if len(bidx) == 0 {
			return -1 // a literal of a signature that did not exist: it has no specification
		}
		return cur
	}
	return bidx[rank]
}

// localRenames: a local named in the baseline that no longer exists is identified with the only new local of the same
// type, if there is exactly one: contracts name locals, and a pure rename must not look like a change of behaviour.
func localRenames(w *World, fn *ssa.Function) map[string]string {
	base := w.BaseLocals[funcDisplayName(fn)]
	if len(base) == 0 {
		return nil
	}
	cur := localsOf(fn)
	out := map[string]string{}
	for name, t := range base {
		if _, still := cur[name]; still || t == "?" || strings.HasPrefix(name, "$closure") {
			continue
		}
		var cands []string
		for n2, t2 := range cur {
			if strings.HasPrefix(n2, "$closure") {
				continue
			}
			if _, was := base[n2]; !was && t2 == t {
				cands = append(cands, n2)
			}
		}
		if len(cands) == 1 {
			out[name] = cands[0]
		}
	}
	return out
}
