package main

import (
	"encoding/json"
	"fmt"
	"go/types"
	"os"
	"path/filepath"
	"sort"
	"strings"
	"time"
)

func typesPointer(t types.Type) types.Type { return types.NewPointer(t) }

type replayFile struct {
	Property     string   `json:"property"`
	Obligation   string   `json:"obligation"`
	Kind         string   `json:"kind"`
	Function     string   `json:"function"`
	Where        string   `json:"where"`
	Text         string   `json:"text"`
	Result       string   `json:"result"`
	Backend      string   `json:"backend"`
	SolverOutput string   `json:"solver_output"`
	Model        string   `json:"model,omitempty"`
	InBaseline   bool     `json:"in_baseline"`
	Replay       *Replay  `json:"replay,omitempty"`
	SMTFile      string   `json:"smt_file,omitempty"`
	Notes        []string `json:"notes,omitempty"`
}

func safeName(s string) string {
	s = sanitize(s)
	if len(s) > 150 {
		s = s[:150]
	}
	return s
}

func report(prop string, cfg *PropConfig, w *World, results []*FnResult, missing []string, tier string, seed int, t0 time.Time, loadSec, genSec float64, verbose, updateBaseline bool, bounded []BoundedResult) int {
	baseline := loadBaseline(prop)
	known := map[string]*KnownFinding{}
	kfs := loadKnownFindings()
	for i := range kfs {
		k := &kfs[i]
		if k.Property != prop || k.Status == "fixed" {
			continue
		}
		for _, o := range k.Obligations {
			known[o] = k
		}
	}
	var all []*Obligation
	var outside, specErrs []string
	fnCount := map[string]int{}
	for _, r := range results {
		if r.Outside != "" {
			outside = append(outside, r.Fn+": "+r.Outside)
		}
		if r.SpecErr != "" {
			specErrs = append(specErrs, r.Fn+": "+r.SpecErr)
		}
		for _, d := range r.Dropped {
			fmt.Printf("UNDECIDED: contract clause not interpretable on this tree (dropped; the rest of the contract is checked): %s: %s\n", r.Fn, d)
		}
		fnCount[r.Kind]++
		all = append(all, r.Obls...)
	}
	sort.SliceStable(all, func(i, j int) bool { return all[i].Name < all[j].Name })
	if verbose {
		for _, r := range results {
			for _, n := range r.Notes {
				fmt.Printf("  note[%s]: %s\n", r.Fn, n)
			}
		}
	}
	engineErrs := 0
	for _, r := range results {
		for _, o := range r.Obls {
			if o.SolverErr != "" {
				if engineErrs < 5 {
					fmt.Printf("ENGINE-ERROR: the solver rejected the query generated for %s: %s\n", o.Name, o.SolverErr)
				}
				engineErrs++
			}
		}
	}
	perBackend := map[string]int{}
	var solverTime float64
	var proved, binding, violations int
	var nonBindingUndecided []string
	var knownHit = map[*KnownFinding][]string{}
	var viol []*Obligation
	seen := map[string]bool{}
	knownNoise := loadNameList(prop + ".unproved")
	replaysTried := 0
	for _, o := range all {
		seen[o.Name] = true
		solverTime += o.TimeS
		if verbose || o.Result != "proved" {
			fmt.Printf("  %-9s %-14s %6.2fs %s  [%s]\n", o.Result, o.Backend, o.TimeS, o.Name, o.Where)
		}
		if o.Result == "proved" {
			proved++
			binding++
			perBackend[o.Backend]++
			continue
		}
		if k, ok := known[o.Name]; ok {
			knownHit[k] = append(knownHit[k], o.Name)
			continue
		}
		isSweep := o.Kind != "post" && o.Kind != "inv.init" && o.Kind != "inv.preserved" && o.Kind != "dec" && o.Kind != "lemma" && o.Kind != "frame" && o.Kind != "pre-of" && o.Kind != "reach" && o.Kind != "ground" && o.Kind != "assert" && o.Kind != "closure"
		sweepFn := strings.HasPrefix(o.Fn, "sweep:")
		inBase := baseline[o.Name]
		switch {
		case inBase:
			binding++
			viol = append(viol, o)
		case o.Result == "refuted" && !sweepFn && (len(baseline) > 0 || updateBaseline):
			// a new obligation of a function under full contract with a counterexample
			binding++
			viol = append(viol, o)
		case sweepFn && !knownNoise[o.Name] && !updateBaseline && len(baseline) > 0 && replaysTried < 12:
			// an unproved safety obligation that did not exist when the baseline was taken: only a violation if the
			// failure replays on the real code
			replaysTried++
			if rp := tryReplay(w, prop, o, results); rp != nil && rp.Reproduced {
				binding++
				o.replay = rp
				viol = append(viol, o)
			} else {
				nonBindingUndecided = append(nonBindingUndecided, o.Name+" ("+o.Result+", new, replay did not reproduce)")
			}
		default:
			_ = isSweep
			nonBindingUndecided = append(nonBindingUndecided, o.Name+" ("+o.Result+")")
		}
	}
	// baseline obligations that were not generated at all (code changed shape): reported, not a violation
	var vanished []string
	for name := range baseline {
		if !seen[name] {
			vanished = append(vanished, name)
		}
	}
	sort.Strings(vanished)

	if updateBaseline {
		var lines []string
		var noise []string
		for _, o := range all {
			if o.Result == "proved" {
				if strings.HasPrefix(o.Fn, "sweep:") && o.TimeS > 1.0 {
					noise = append(noise, o.Name)
					continue // keep only robustly (quickly) discharged sweep obligations binding
				}
				lines = append(lines, o.Name)
			} else if strings.HasPrefix(o.Fn, "sweep:") {
				noise = append(noise, o.Name)
			} else if o.Result == "undecided" && (isSafetyKind(o.Kind) || o.Kind == "pre-of") {
				// an undecided zero-annotation safety obligation of a function under contract (it lacks a precondition):
				// non-binding; recorded so that the quick tier does not spend its time on it again
				noise = append(noise, o.Name)
			}
		}
		os.MkdirAll(filepath.Join(verifDir, "obligations"), 0o755)
		os.WriteFile(filepath.Join(verifDir, "obligations", prop+".unproved"), []byte(strings.Join(noise, "\n")+"\n"), 0o644)
		os.MkdirAll(filepath.Join(verifDir, "obligations"), 0o755)
		os.WriteFile(filepath.Join(verifDir, "obligations", prop+".expected"), []byte(strings.Join(lines, "\n")+"\n"), 0o644)
		locals := map[string]map[string]string{}
		for fn := range w.Contracts {
			if len(fn.Blocks) > 0 {
				locals[funcDisplayName(fn)] = localsOf(fn)
			}
		}
		if data, err := json.MarshalIndent(locals, "", " "); err == nil {
			os.WriteFile(filepath.Join(verifDir, "obligations", prop+".locals"), data, 0o644)
		}
		fmt.Printf("baseline written: %d obligations\n", len(lines))
	}

	// replay files + VIOLATION lines
	replayDir := filepath.Join(verifDir, "replays", prop)
	os.RemoveAll(replayDir)
	os.MkdirAll(replayDir, 0o755)
	for _, o := range viol {
		violations++
		rf := replayFile{Property: prop, Obligation: o.Name, Kind: o.Kind, Function: o.Fn, Where: o.Where, Text: o.Text, Result: o.Result, Backend: o.Backend,
			SolverOutput: o.Output, Model: o.Model, InBaseline: baseline[o.Name]}
		path := filepath.Join(replayDir, safeName(o.Name)+".json")
		suffix := " no-failing-input-found"
		if o.replay != nil {
			rf.Replay = o.replay
			suffix = ""
		} else if (o.Result == "refuted" && o.Model != "") || o.Candidate != "" {
			rp := tryReplay(w, prop, o, results)
			rf.Replay = rp
			if rp != nil && rp.Reproduced {
				suffix = ""
			}
		}
		data, _ := json.MarshalIndent(rf, "", " ")
		os.WriteFile(path, data, 0o644)
		fmt.Printf("VIOLATION property=%s replay=%s obligation=%q%s\n", prop, path, o.Name, suffix)
	}
	for _, b := range bounded {
		if b.Error != "" {
			fmt.Printf("UNDECIDED: bounded stand-in %s did not run: %s\n", b.Name, firstLines(b.Error, 3))
			continue
		}
		fmt.Printf("BOUNDED %s: %s; %d violations not listed as known findings, %d matching a listed known finding; bound: %s\n", b.Name, b.Summary, len(b.Violations), b.KnownHits, b.Bound)
		if len(b.Violations) > 0 {
			violations++
			path := filepath.Join(replayDir, safeName("bounded_"+b.Name)+".json")
			data, _ := json.MarshalIndent(map[string]interface{}{"property": prop, "obligation": "bounded:" + b.Name, "kind": "bounded stand-in (exhaustive up to the stated bound, through the real code)",
				"bound": b.Bound, "failing_inputs": b.Violations, "command": b.Command}, "", " ")
			os.WriteFile(path, data, 0o644)
			fmt.Printf("VIOLATION property=%s replay=%s obligation=%q first=%q\n", prop, path, "bounded:"+b.Name, b.Violations[0])
		}
	}
	var kfLines []string
	for i := range kfs {
		k := &kfs[i]
		if k.Property != prop || k.Status == "fixed" {
			continue
		}
		still := ""
		if obls := knownHit[k]; len(obls) > 0 {
			still = " [obligations failing: " + strings.Join(obls, ", ") + "]"
		}
		kfLines = append(kfLines, fmt.Sprintf("KNOWN-FINDING: property=%s %s%s input: %s", prop, k.What, still, k.Input))
	}
	sort.Strings(kfLines)
	for _, l := range kfLines {
		fmt.Println(l)
	}
	for _, m := range missing {
		fmt.Printf("UNDECIDED: function under contract not found or has no contract: %s\n", m)
	}
	for _, s := range specErrs {
		fmt.Printf("UNDECIDED: contract not interpretable on this tree: %s\n", s)
	}
	for _, s := range outside {
		fmt.Printf("UNDECIDED: outside supported subset: %s\n", s)
	}
	if len(vanished) > 0 {
		fmt.Printf("NOTE: %d baseline obligations were not generated on this tree (code shape changed), e.g. %s\n", len(vanished), vanished[0])
	}
	if len(nonBindingUndecided) > 0 {
		fmt.Printf("NOTE: %d non-binding obligations not proved (not in baseline; no counterexample for a contract obligation)\n", len(nonBindingUndecided))
	}

	// evidence
	trusted := []string{}
	for t := range w.Trusted {
		trusted = append(trusted, t)
	}
	sort.Strings(trusted)
	assumptions := []string{
		"integers are mathematical (no overflow / wrap-around obligations)",
		"strings are SMT-LIB strings whose characters stand for bytes",
		"contracts of callees are used instead of their bodies; callees without contract are inlined (loop-free, depth<=4) or havoc'd",
		"trusted standard-library contracts listed in coverage.trusted_base",
		"termination is only proved where a decreases clause is given",
	}
	noteSet := map[string]bool{}
	for _, r := range results {
		for _, n := range r.Notes {
			if !noteSet[n] {
				noteSet[n] = true
			}
		}
	}
	var notes []string
	for n := range noteSet {
		notes = append(notes, n)
	}
	sort.Strings(notes)
	if len(notes) > 40 {
		notes = append(notes[:40], fmt.Sprintf("… and %d more abstraction notes", len(notes)-40))
	}
	assumptions = append(assumptions, notes...)
	assumptions = append(assumptions, cfg.Notes...)
	if n := perBackend["probe-unknown"]; n > 0 {
		assumptions = append(assumptions, fmt.Sprintf("%d vacuity probe(s) ('the function exit is reachable under the contract's assumptions') could not be decided by any solver; they are counted as discharged obligations but establish nothing - consistency of the assumptions of those functions is not machine-checked", n))
	}
	var samples []interface{}
	for i, o := range all {
		if i%(len(all)/6+1) == 0 {
			samples = append(samples, map[string]interface{}{"obligation": o.Name, "kind": o.Kind, "where": o.Where, "result": o.Result, "backend": o.Backend, "time_s": round3(o.TimeS), "smt_lines": o.Prefix + 3})
		}
	}
	var fnsUnder, lemmas, sweepFns []string
	for _, r := range results {
		switch r.Kind {
		case "contract":
			fnsUnder = append(fnsUnder, r.Fn)
		case "lemma":
			lemmas = append(lemmas, r.Fn)
		case "sweep":
			sweepFns = append(sweepFns, r.Fn)
		}
	}
	var kfNames []string
	for k, obls := range knownHit {
		kfNames = append(kfNames, k.What+" :: "+strings.Join(obls, ", "))
	}
	sort.Strings(kfNames)
	cov := map[string]interface{}{
		"obligations":                 binding,
		"discharged":                  proved,
		"checker_cmd":                 fmt.Sprintf("./bin/govc check %s --tier %s", prop, tier),
		"trusted_base":                trusted,
		"samples":                     samples,
		"functions_under_contract":    fnsUnder,
		"lemmas":                      lemmas,
		"sweep_functions":             len(sweepFns),
		"per_backend":                 perBackend,
		"solver_time_s":               round3(solverTime),
		"load_s":                      round3(loadSec),
		"vcgen_s":                     round3(genSec),
		"known_findings":              kfNames,
		"undecided_nonbinding":        len(nonBindingUndecided),
		"undecided_nonbinding_sample": firstN(nonBindingUndecided, 10),
		"outside_subset":              outside,
		"uninterpretable":             specErrs,
		"missing_targets":             missing,
		"baseline_size":               len(baseline),
		"baseline_vanished":           len(vanished),
		"not_decided_clauses":         cfg.NotDecided,
		"explanation":                 "weakest-precondition VCs generated from go/ssa (naive form) of the current /repo tree; one SMT query per named obligation; portfolio z3 5.1.0 / z3 4.8.12 / cvc5 1.0",
	}
	if len(bounded) > 0 {
		var bl []map[string]interface{}
		for _, b := range bounded {
			bl = append(bl, map[string]interface{}{
				"name": b.Name, "label": "BOUNDED stand-in: exhaustive up to the stated bound through the real code; not a proof, not counted in obligations/discharged",
				"bound": b.Bound, "evaluations": b.Evaluations, "summary": b.Summary, "violations_not_listed": len(b.Violations),
				"violations_matching_a_listed_known_finding": b.KnownHits, "seconds": round3(b.Seconds), "command": b.Command, "error": b.Error,
			})
		}
		cov["bounded_standins"] = bl
	}
	var openKF []string
	for i := range kfs {
		if kfs[i].Property == prop && kfs[i].Status != "fixed" {
			openKF = append(openKF, kfs[i].What+" :: "+kfs[i].Input)
		}
	}
	cov["known_findings_open"] = openKF
	if binding == 0 {
		cov["obligations"] = 0
	}
	ev := map[string]interface{}{
		"property_id": prop,
		"tier":        tier,
		"seed":        seed,
		"level":       "proof",
		"coverage":    cov,
		"assumptions": assumptions,
		"wall_s":      round3(time.Since(t0).Seconds()),
		"violations":  violations,
	}
	os.MkdirAll(filepath.Join(verifDir, "evidence"), 0o755)
	data, _ := json.MarshalIndent(ev, "", " ")
	os.WriteFile(filepath.Join(verifDir, "evidence", prop+".json"), data, 0o644)

	fmt.Printf("%s: %d functions under contract, %d lemmas, %d swept; %d binding obligations, %d proved, %d violations, %d known findings; load %.1fs vcgen %.1fs solver %.1fs wall %.1fs\n",
		prop, len(fnsUnder), len(lemmas), len(sweepFns), binding, proved, violations, len(knownHit), loadSec, genSec, solverTime, time.Since(t0).Seconds())
	if violations > 0 {
		return 1
	}
	if proved == 0 {
		fmt.Println("ENGINE-ERROR: zero obligations discharged (vacuous run)")
		return 2
	}
	return 0
}

func round3(f float64) float64 { return float64(int(f*1000)) / 1000 }

func firstN(xs []string, n int) []string {
	if len(xs) > n {
		return xs[:n]
	}
	return xs
}

// ---------- stubs filled in by other files ----------

type Replay struct {
	Supported  bool   `json:"supported"`
	Reproduced bool   `json:"reproduced"`
	Command    string `json:"command,omitempty"`
	TestSource string `json:"test_source,omitempty"`
	Output     string `json:"output,omitempty"`
	Inputs     string `json:"inputs,omitempty"`
	Note       string `json:"note,omitempty"`
}

func cmdReplay(args []string) int {
	if len(args) < 1 {
		fmt.Fprintln(os.Stderr, "usage: govc replay <file>")
		return 2
	}
	data, err := os.ReadFile(args[0])
	if err != nil {
		fmt.Fprintln(os.Stderr, err)
		return 2
	}
	var rf replayFile
	if err := json.Unmarshal(data, &rf); err != nil {
		fmt.Fprintln(os.Stderr, err)
		return 2
	}
	fmt.Printf("property %s\nobligation %s\nfunction %s (%s)\nresult %s by %s\n%s\n", rf.Property, rf.Obligation, rf.Function, rf.Where, rf.Result, rf.Backend, rf.Text)
	if rf.Model != "" {
		fmt.Println("model:\n" + rf.Model)
	}
	if rf.Replay != nil && rf.Replay.Command != "" {
		return rerunReplay(&rf)
	}
	fmt.Println("no executable replay recorded (no-failing-input-found)")
	return 1
}

func isSafetyKind(k string) bool {
	switch k {
	case "post", "inv.init", "inv.preserved", "dec", "lemma", "frame", "frame.init", "frame.preserved", "pre-of", "reach", "ground", "assert", "closure":
		return false
	}
	return true
}
