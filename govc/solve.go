package main

import (
	"bytes"
	"context"
	"fmt"
	"os"
	"os/exec"
	"path/filepath"
	"strings"
	"sync"
	"time"
)

type solverCfg struct {
	name string
	argv func(file string, timeoutMs int) []string
}

var solvers = []solverCfg{
	{"z3-new-5.1.0", func(f string, ms int) []string { return []string{"z3-new", fmt.Sprintf("-t:%d", ms), f} }},
	{"z3-4.8.12", func(f string, ms int) []string { return []string{"z3", fmt.Sprintf("-t:%d", ms), f} }},
	{"cvc5-1.0", func(f string, ms int) []string {
		return []string{"cvc5", "--lang=smt2", "--strings-exp", fmt.Sprintf("--tlimit=%d", ms), f}
	}},
}

type solveOpts struct {
	quickMs   int // first attempt, single solver
	fullMs    int // portfolio attempt
	workDir   string
	keepFiles bool
	parallel  int
}

func queryText(o *Obligation, watch []string) string {
	var b strings.Builder
	body := strings.Join(o.Script, "\n") + "\n" + o.Reach + "\n" + o.Formula
	if strings.Contains(body, "(bitor ") {
		body += " (bitand "
	}
	for i, l := range o.Script {
		b.WriteString(l)
		b.WriteByte('\n')
		if i == len(preamble)-1 {
			for _, lp := range lazyPreamble {
				if strings.Contains(body, "("+lp.sym+" ") {
					for _, x := range lp.lines {
						if o.noQuantAxioms && strings.Contains(x, "(forall ") {
							continue
						}
						b.WriteString(x)
						b.WriteByte('\n')
					}
				}
			}
		}
	}
	if o.Reach != "true" && o.Reach != "" {
		b.WriteString("(assert " + o.Reach + ")\n")
	}
	b.WriteString("(assert " + not(o.Formula) + ")\n")
	b.WriteString("(check-sat)\n")
	if len(watch) > 0 {
		b.WriteString("(get-value (" + strings.Join(watch, " ") + "))\n")
	}
	return b.String()
}

func runSolver(s solverCfg, file string, ms int) (verdict, out string, secs float64) {
	ctx, cancel := context.WithTimeout(context.Background(), time.Duration(ms+2000)*time.Millisecond)
	defer cancel()
	argv := s.argv(file, ms)
	cmd := exec.CommandContext(ctx, argv[0], argv[1:]...)
	var buf bytes.Buffer
	cmd.Stdout = &buf
	cmd.Stderr = &buf
	t0 := time.Now()
	_ = cmd.Run()
	secs = time.Since(t0).Seconds()
	out = buf.String()
	first := ""
	for _, ln := range strings.Split(out, "\n") {
		ln = strings.TrimSpace(ln)
		if ln == "" || strings.HasPrefix(ln, "WARNING") || strings.HasPrefix(ln, "(warning") {
			continue
		}
		first = ln
		break
	}
	switch first {
	case "unsat", "sat":
		verdict = first
	case "unknown", "timeout":
		verdict = "unknown"
	default:
		if ctx.Err() != nil {
			verdict = "unknown"
			out = "timeout\n" + out
		} else {
			verdict = "error"
		}
	}
	return
}

// solveOne decides one obligation with a staged portfolio.
func solveOne(o *Obligation, watch []string, opts solveOpts, idx int) {
	file := filepath.Join(opts.workDir, fmt.Sprintf("q%05d.smt2", idx))
	if err := os.WriteFile(file, []byte("; "+strings.ReplaceAll(o.Name, "\n", " ")+"\n"+queryText(o, watch)), 0o644); err != nil {
		o.Result, o.Output = "undecided", err.Error()
		return
	}
	if !opts.keepFiles {
		defer os.Remove(file)
	}
	want := "unsat"
	if o.Expect == "sat" {
		want = "sat"
	}
	record := func(v, out, backend string, secs float64) bool {
		o.TimeS += secs
		if v == "unsat" || v == "sat" {
			o.Backend = backend
			o.Output = out
			if v == want {
				o.Result = "proved"
			} else {
				o.Result = "refuted"
				if v == "sat" {
					o.Model = out
				}
			}
			return true
		}
		if o.Output == "" || v == "error" {
			o.Output += "[" + backend + "] " + firstLines(out, 3) + "\n"
		}
		if v == "error" && backend == solvers[0].name && o.SolverErr == "" {
			o.SolverErr = firstLines(out, 1)
		}
		return false
	}
	// stage 1
	v, out, secs := runSolver(solvers[0], file, opts.quickMs)
	if record(v, out, solvers[0].name, secs) {
		return
	}
	if o.Expect == "sat" {
		// reachability probe: only a definite `unsat` (contradictory assumptions) is an alarm; `unknown` is common
		// for satisfiable queries with quantifiers/strings and is accepted.
		o.Result = "proved"
		o.Backend = "probe-unknown"
		return
	}
	// stage 2: race all
	type res struct {
		v, out, name string
		secs         float64
	}
	ch := make(chan res, len(solvers))
	fullMs := opts.fullMs
	if o.CapMs > 0 && o.CapMs < fullMs {
		fullMs = o.CapMs
	}
	for _, s := range solvers {
		go func(s solverCfg) {
			v, out, secs := runSolver(s, file, fullMs)
			ch <- res{v, out, s.name, secs}
		}(s)
	}
	decided := false
	var maxSecs float64
	for range solvers {
		r := <-ch
		if r.secs > maxSecs {
			maxSecs = r.secs
		}
		if decided {
			continue
		}
		if r.v == "unsat" || r.v == "sat" {
			decided = record(r.v, r.out, r.name, r.secs)
		} else {
			o.Output += "[" + r.name + "] " + firstLines(r.out, 2) + "\n"
		}
	}
	if !decided {
		o.TimeS += maxSecs
		o.Result = "undecided"
		// stage 3: candidate counterexample from the query without quantified assumptions. Such a model may violate
		// a dropped axiom, so it never counts as a refutation by itself; it is only used as an input to replay.
		stripped := *o
		stripped.noQuantAxioms = true
		stripped.Script = nil
		for _, l := range o.Script {
			if strings.HasPrefix(l, "(assert ") && (strings.Contains(l, "(forall ") || strings.Contains(l, "(exists ")) {
				continue
			}
			stripped.Script = append(stripped.Script, l)
		}
		rfile := file + ".relaxed.smt2"
		os.WriteFile(rfile, []byte(queryText(&stripped, watch)), 0o644)
		if !opts.keepFiles {
			defer os.Remove(rfile)
		}
		for _, s := range solvers[:1] {
			v, out, secs := runSolver(s, rfile, opts.quickMs)
			o.TimeS += secs
			if v == "sat" {
				o.Candidate = out
				o.Output += "[candidate model from quantifier-free relaxation by " + s.name + "]\n"
			}
		}
		if o.Expect == "sat" {
			// a reachability probe that cannot be decided is not a vacuity alarm
			o.Result = "proved"
			o.Backend = "probe-unknown"
		}
	}
}

func firstLines(s string, n int) string {
	ls := strings.Split(strings.TrimSpace(s), "\n")
	if len(ls) > n {
		ls = ls[:n]
	}
	return strings.Join(ls, " | ")
}

func solveAll(results []*FnResult, opts solveOpts) {
	type job struct {
		o     *Obligation
		watch []string
		idx   int
	}
	var jobs []job
	for _, r := range results {
		for _, o := range r.Obls {
			jobs = append(jobs, job{o, r.Watch, len(jobs)})
		}
	}
	sem := make(chan struct{}, opts.parallel)
	var wg sync.WaitGroup
	for _, j := range jobs {
		wg.Add(1)
		sem <- struct{}{}
		go func(j job) {
			defer wg.Done()
			defer func() { <-sem }()
			solveOne(j.o, j.watch, opts, j.idx)
		}(j)
	}
	wg.Wait()
}
