package main

import (
	"fmt"
	"go/ast"
	"go/token"
	"go/types"
	"os"
	"sort"
	"strings"

	"golang.org/x/tools/go/packages"
	"golang.org/x/tools/go/ssa"
	"golang.org/x/tools/go/ssa/ssautil"
)

const repoMod = "github.com/google/osv-scalibr"

// World is everything loaded from /repo for one run.
type World struct {
	RepoDir       string
	Fset          *token.FileSet
	Pkgs          map[string]*packages.Package // by import path (all, incl. deps)
	Roots         []*packages.Package
	Prog          *ssa.Program
	SSAPkgs       map[string]*ssa.Package
	Contracts     map[*ssa.Function]*Contract
	ByName        map[string]*Contract // "pkgpath.FuncName" -> contract (pre-resolution)
	ISpecs        map[string]*Contract // "pkgpath.Iface.Method"
	SpecFns       map[string]*SpecFunc // "pkgpath.name" and bare name
	Ghosts        map[string]*GhostVar
	MissingTargets []string
	BaseLocals    map[string]map[string]string // function -> local name -> type, as recorded with the baseline
	Lemmas        []*Lemma
	Axioms        []*Axiom
	Trusted       map[string]bool // names of trusted stdlib handlers actually used
	sentinelIDs   map[string]int
	sentinelCache map[string]bool
}

func loadWorld(repoDir string, patterns []string, overlay map[string][]byte) (*World, error) {
	fset := token.NewFileSet()
	cfg := &packages.Config{
		Mode:       packages.LoadAllSyntax,
		Dir:        repoDir,
		Fset:       fset,
		BuildFlags: []string{"-tags=verif"},
		Env:        append(os.Environ(), "GOFLAGS=-mod=mod", "GOPROXY=off"),
		Overlay:    overlay,
	}
	roots, err := packages.Load(cfg, patterns...)
	if err != nil {
		return nil, err
	}
	var errs []string
	packages.Visit(roots, nil, func(p *packages.Package) {
		if strings.HasPrefix(p.PkgPath, repoMod) {
			for _, e := range p.Errors {
				errs = append(errs, e.Error())
			}
		}
	})
	if len(errs) > 0 {
		return nil, fmt.Errorf("load errors:\n%s", strings.Join(errs, "\n"))
	}
	w := &World{RepoDir: repoDir, Fset: fset, Roots: roots, Pkgs: map[string]*packages.Package{}, SSAPkgs: map[string]*ssa.Package{},
		Contracts: map[*ssa.Function]*Contract{}, ByName: map[string]*Contract{}, ISpecs: map[string]*Contract{}, SpecFns: map[string]*SpecFunc{},
		Ghosts: map[string]*GhostVar{}, Trusted: map[string]bool{}}
	packages.Visit(roots, nil, func(p *packages.Package) { w.Pkgs[p.PkgPath] = p })
	prog, _ := ssautil.AllPackages(roots, ssa.NaiveForm|ssa.GlobalDebug|ssa.InstantiateGenerics)
	w.Prog = prog
	for _, sp := range prog.AllPackages() {
		if sp.Pkg != nil {
			w.SSAPkgs[sp.Pkg.Path()] = sp
			if strings.HasPrefix(sp.Pkg.Path(), repoMod) {
				sp.Build()
			}
		}
	}
	return w, nil
}

// repoPackages returns the loaded repository packages in sorted order.
func (w *World) repoPackages() []*packages.Package {
	var out []*packages.Package
	for path, p := range w.Pkgs {
		if strings.HasPrefix(path, repoMod) {
			out = append(out, p)
		}
	}
	sort.Slice(out, func(i, j int) bool { return out[i].PkgPath < out[j].PkgPath })
	return out
}

// findFunc resolves "Func" or "(T).Method"/"(*T).Method" / "T.Method" in a package.
func (w *World) findFunc(pkgPath, recv, name string) *ssa.Function {
	sp := w.SSAPkgs[pkgPath]
	if sp == nil {
		return nil
	}
	if recv == "" {
		return sp.Func(name)
	}
	base := strings.TrimPrefix(recv, "*")
	if i := strings.Index(base, "["); i >= 0 {
		base = base[:i]
	}
	obj := sp.Pkg.Scope().Lookup(base)
	if obj == nil {
		return nil
	}
	named, ok := obj.Type().(*types.Named)
	if !ok {
		return nil
	}
	for i := 0; i < named.NumMethods(); i++ {
		m := named.Method(i)
		if m.Name() == name {
			return w.Prog.FuncValue(m)
		}
	}
	return nil
}

// instancesOf returns the generic instantiations of fn built in the program (or fn itself if not generic).
func (w *World) instancesOf(fn *ssa.Function) []*ssa.Function {
	if fn.TypeParams().Len() == 0 && (fn.Signature.Recv() == nil || !isGenericRecv(fn)) {
		return []*ssa.Function{fn}
	}
	var out []*ssa.Function
	for f := range ssautil.AllFunctions(w.Prog) {
		if f.Origin() == fn && f.Blocks != nil {
			out = append(out, f)
		}
	}
	sort.Slice(out, func(i, j int) bool { return out[i].String() < out[j].String() })
	return out
}

func isGenericRecv(fn *ssa.Function) bool {
	r := fn.Signature.Recv()
	if r == nil {
		return false
	}
	t := deref(r.Type())
	if n, ok := t.(*types.Named); ok {
		return n.TypeParams().Len() > 0 && n.TypeArgs().Len() == 0
	}
	return false
}

// fileOf returns the syntax file containing pos.
func (w *World) fileOf(pos token.Pos) (*ast.File, *packages.Package) {
	if !pos.IsValid() {
		return nil, nil
	}
	name := w.Fset.Position(pos).Filename
	for _, p := range w.Pkgs {
		if !strings.HasPrefix(p.PkgPath, repoMod) {
			continue
		}
		for i, f := range p.CompiledGoFiles {
			if f == name && i < len(p.Syntax) {
				return p.Syntax[i], p
			}
		}
	}
	return nil, nil
}

// isRepoSentinel: G_<pkgpath>.<name> is an error variable initialised once by errors.New in init and never stored to elsewhere.
func (w *World) isRepoSentinel(heapName string) bool {
	if v, ok := w.sentinelCache[heapName]; ok {
		return v
	}
	if w.sentinelCache == nil {
		w.sentinelCache = map[string]bool{}
	}
	res := false
	defer func() { w.sentinelCache[heapName] = res }()
	full := strings.TrimPrefix(heapName, "G_")
	i := strings.LastIndex(full, ".")
	if i < 0 {
		return false
	}
	sp := w.SSAPkgs[full[:i]]
	if sp == nil {
		return false
	}
	g, ok := sp.Members[full[i+1:]].(*ssa.Global)
	if !ok || !types.IsInterface(deref(g.Type())) {
		return false
	}
	stores, good := 0, 0
	for fn := range allFuncsOf(w, sp) {
		for _, b := range fn.Blocks {
			for _, ins := range b.Instrs {
				st, ok := ins.(*ssa.Store)
				if !ok || st.Addr != ssa.Value(g) {
					continue
				}
				stores++
				if call, ok := st.Val.(*ssa.Call); ok && strings.HasPrefix(fn.Name(), "init") {
					if cf := call.Common().StaticCallee(); cf != nil && cf.String() == "errors.New" {
						good++
					}
				}
			}
		}
	}
	res = stores == 1 && good == 1
	return res
}
