#!/usr/bin/env python3
# Regenerates MANIFEST.json from props/*.json (claimed checks) and na.json (not-applicable reasons).
import json, os, glob
here = os.path.dirname(os.path.abspath(__file__))
props = [json.loads(l) for l in open(os.path.join(here, 'properties.jsonl'))]
na = json.load(open(os.path.join(here, 'na.json')))
texts = json.load(open(os.path.join(here, 'claims.json')))
claimed = sorted(os.path.basename(p)[:-5] for p in glob.glob(os.path.join(here, 'props', 'C*.json')) if os.path.basename(p)[:-5] in texts)
repo_commits = os.popen("git -C /repo log --format='%h %s' | grep 'verif hook' | cut -d' ' -f1").read().split()
checks = []
for pid in claimed:
    t = texts[pid]
    checks.append({
        "property_id": pid,
        "quick_cmd": "./check.sh %s quick" % pid,
        "thorough_cmd": "./check.sh %s thorough" % pid,
        "evidence_file": "evidence/%s.json" % pid,
        "replay_cmd_template": "./bin/govc replay {path}",
        "engine": "govc",
        "level_claimed": {"category": "proof", "text": t["text"], "design_ref": "DESIGN.md section 4, " + pid},
        "level_note": t["note"],
        "technique": "contract-based deductive verification: contracts on the real Go functions, WP over go/ssa, every obligation discharged by z3/cvc5",
    })
m = {
    "version": 1,
    "setup_cmd": "./setup.sh",
    "hooks": {
        "guard": "verif",
        "enable": "contracts live in //go:build verif files (zz_verif_contracts.go, comment-only); the engine loads /repo with -tags=verif",
        "baseline_off_cmd": json.load(open('/root/.vp/BASELINE.json'))["cmd"] if os.path.exists('/root/.vp/BASELINE.json') else "see BASELINE.json",
        "source_commits": repo_commits,
        "add_only": True,
    },
    "engines": [{"name": "govc", "path": "govc/", "serves_properties": claimed,
                 "kind_free_text": "contract-based deductive verifier for Go written for this task: go/packages + go/ssa (naive form) -> weakest-precondition verification conditions -> SMT-LIB; solver portfolio z3 5.1.0 / z3 4.8.12 / cvc5 1.0"}],
    "checks": checks,
    "not_applicable": [{"property_id": p["id"], "reason": na.get(p["id"], "no check registered yet in this round (contracts under construction); see DESIGN.md")} for p in props if p["id"] not in claimed],
    "notes": "Every check regenerates its obligations from /repo's working tree. Known genuine defects are in known-findings.json. See DESIGN.md.",
}
json.dump(m, open(os.path.join(here, 'MANIFEST.json'), 'w'), indent=1)
print("claimed:", claimed)
