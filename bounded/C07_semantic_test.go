package semantic

// Bounded stand-in for the order laws of C07 (labelled BOUNDED in the evidence; never counted as proved):
// exhaustive check of no-panic, reflexivity, antisymmetry and transitivity over a generated set of version
// strings per ecosystem, through the real Parse / CompareStr.

import (
	"fmt"
	"os"
	"regexp"
	"strconv"
	"testing"
)

func verifGen(eco string, limit int) []string {
	bases := []string{"1", "1.0", "1.0.0", "1.1", "1.10", "1.2", "2", "0", "1.01", "10.0", "1.0.1", "2.0.0", "0.9", "1.0.10"}
	var sufs []string
	switch eco {
	case "Red Hat":
		sufs = []string{"", "~rc1", "^git1", "~", "^", "-1", "-2", "~rc2", "^git2", ".el8", "-1.el8", "a", "~a", "^a", "_1"}
		bases = append([]string{"1:1.0", "0:1.0", "2:0.1"}, bases...)
	case "Debian", "Ubuntu":
		sufs = []string{"", "~rc1", "-1", "-2", "+b1", "~", "-1ubuntu1", "a", "~a", "+dfsg", "-1~bpo1", ".a"}
		bases = append([]string{"1:1.0", "0:1.0", "2:0.1"}, bases...)
	case "Alpine":
		sufs = []string{"", "-r0", "-r1", "_alpha", "_alpha1", "_beta", "_rc1", "_p1", "_pre", "a", "b", "_git", "-r10", "~hash", "~0abc",
			"_git1~abcdef-r5", "_git1-r5", "_git1-r3", "_p1-r2", "~abc-r1", "a_rc1~0123abc-r0", "_git20240101~0123abc-r0", "_alpha1_p2-r1"}
	case "PyPI":
		sufs = []string{"", "a1", "b1", "rc1", ".post1", ".dev1", "+local", "a", ".post", ".dev", "rc", "+abc.1", "-1", "alpha1", "c1", "pre1"}
		bases = append([]string{"1!1.0", "0!1.0"}, bases...)
	case "Maven":
		sufs = []string{"", "-alpha", "-beta", "-rc", "-SNAPSHOT", "-final", "-ga", "-sp", "-1", ".alpha", "a1", "-alpha-1", "-m1", "-cr1", "-foo", ".RELEASE", "-a"}
	case "Packagist":
		sufs = []string{"", "-alpha", "-beta", "-RC1", "-p1", "-dev", ".99999999999999999999", "-alpha1", "p", "-a", "_1", "+1", ".a"}
		bases = append([]string{"v1.0"}, bases...)
	case "RubyGems":
		sufs = []string{"", ".pre", ".rc1", ".a", ".beta.1", "-1", ".alpha", "a", ".b1"}
	case "NuGet":
		sufs = []string{"", "-alpha", "-beta", "-RC", "-alpha.1", "+build", "-Alpha", ".1", "-1", "-a.b"}
	case "CRAN":
		sufs = []string{"", "-1", ".1", "-0", ".0.0", "-10"}
	default: // semver family
		sufs = []string{"", "-alpha", "-beta", "-rc.1", "-alpha.1", "+build", "-1", "-a.b", ".1", "-alpha.beta", "-0", "-rc.10", "-rc.2"}
		bases = append([]string{"v1.0.0"}, bases...)
	}
	seen := map[string]bool{}
	var out []string
	add := func(v string) {
		if !seen[v] {
			seen[v] = true
			out = append(out, v)
		}
	}
	if eco == "Alpine" {
		// the product of the productions of apk-tools' grammar: number{letter}{_suffix{number}}{~hash}{-r#}, with
		// numeric parts whose string order differs from their numeric order
		for _, num := range []string{"1.2", "1.10", "1.5"} {
			for _, letter := range []string{"", "a"} {
				for _, suf := range []string{"", "_git1", "_rc1", "_p1"} {
					for _, hash := range []string{"", "~abc"} {
						for _, build := range []string{"", "-r0", "-r5"} {
							add(num + letter + suf + hash + build)
						}
					}
				}
			}
		}
	}
	for _, s := range sufs {
		for _, b := range bases {
			add(b + s)
		}
	}
	// a fixed pseudo-random selection (linear congruential shuffle with a constant seed, so every run explores the same
	// strings): a regular stride would keep hitting the same few bases
	if len(out) > limit {
		x := uint64(88172645463325252)
		for i := len(out) - 1; i > 0; i-- {
			x = x*6364136223846793005 + 1442695040888963407
			j := int((x >> 33) % uint64(i+1))
			out[i], out[j] = out[j], out[i]
		}
		out = out[:limit]
	}
	return out
}

var verifAlpineRe = regexp.MustCompile(`^[0-9]+(\.[0-9]+)*[a-z]?(_(alpha|beta|pre|rc|cvs|svn|git|hg|p)[0-9]*)*(~[0-9a-f]+)?(-r[0-9]+)?$`)

// verifGrammarValid: an independent statement of the ecosystem's version grammar where the library itself does not
// reject malformed strings (apk-tools' version grammar for Alpine); elsewhere acceptance by Parse is the criterion.
func verifGrammarValid(eco, v string) bool {
	if eco == "Alpine" {
		return verifAlpineRe.MatchString(v)
	}
	return true
}

func verifCmp(eco, a, b string) (res int, ok bool, panicked interface{}) {
	defer func() {
		if r := recover(); r != nil {
			panicked = r
		}
	}()
	va, err := Parse(a, eco)
	if err != nil {
		return 0, false, nil
	}
	if _, err := Parse(b, eco); err != nil {
		return 0, false, nil
	}
	r, err := va.CompareStr(b)
	if err != nil {
		return 0, false, nil
	}
	return r, true, nil
}

func sgnv(x int) int {
	if x < 0 {
		return -1
	}
	if x > 0 {
		return 1
	}
	return 0
}

func TestVerifBounded(t *testing.T) {
	limit := 24
	if n, err := strconv.Atoi(os.Getenv("VERIF_BOUNDED_N")); err == nil && n > 0 {
		limit = n
	}
	ecos := []string{"Alpine", "ConanCenter", "CRAN", "crates.io", "Debian", "Go", "Hex", "Maven", "npm", "NuGet", "Packagist", "Pub", "PyPI", "Red Hat", "RubyGems", "Ubuntu"}
	evals, violations := 0, 0
	report := func(format string, args ...interface{}) {
		violations++
		if violations <= 5000 {
			fmt.Printf("BOUNDED-VIOLATION "+format+"\n", args...)
		}
	}
	for _, eco := range ecos {
		vs := verifGen(eco, limit)
		n := len(vs)
		cmp := make([][]int, n)
		okm := make([][]bool, n)
		for i := range vs {
			cmp[i] = make([]int, n)
			okm[i] = make([]bool, n)
			for j := range vs {
				r, ok, p := verifCmp(eco, vs[i], vs[j])
				evals++
				if p != nil {
					report("law=no-panic ecosystem=%q a=%q b=%q panic=%v", eco, vs[i], vs[j], p)
					continue
				}
				cmp[i][j], okm[i][j] = sgnv(r), ok
			}
		}
		for i := range vs {
			if okm[i][i] && cmp[i][i] != 0 {
				report("law=reflexive ecosystem=%q a=%q cmp=%d", eco, vs[i], cmp[i][i])
			}
			for j := range vs {
				if okm[i][j] && okm[j][i] && cmp[i][j] != -cmp[j][i] {
					report("law=antisymmetric ecosystem=%q a=%q b=%q cmp(a,b)=%d cmp(b,a)=%d", eco, vs[i], vs[j], cmp[i][j], cmp[j][i])
				}
			}
		}
		// transitivity is demanded of grammar-valid versions only; where the library accepts strings outside the
		// ecosystem's grammar without an error (Alpine), validity is judged by an independent statement of the grammar,
		// not by the library's own 'invalid' flag
		valid := make([]bool, n)
		for i := range vs {
			valid[i] = verifGrammarValid(eco, vs[i])
		}
		for i := range vs {
			for j := range vs {
				if !okm[i][j] || cmp[i][j] > 0 || !valid[i] || !valid[j] {
					continue
				}
				for k := range vs {
					if !okm[j][k] || !okm[i][k] || cmp[j][k] > 0 || !valid[k] {
						continue
					}
					evals++
					// a <= b and b <= c must give a <= c; and a <= b < c or a < b <= c must give a < c
					if cmp[i][k] > 0 || ((cmp[i][j] < 0 || cmp[j][k] < 0) && cmp[i][k] >= 0) {
						report("law=transitive ecosystem=%q a=%q b=%q c=%q cmp(a,b)=%d cmp(b,c)=%d cmp(a,c)=%d", eco, vs[i], vs[j], vs[k], cmp[i][j], cmp[j][k], cmp[i][k])
					}
				}
			}
		}
	}
	fmt.Printf("BOUNDED-SUMMARY evaluations=%d violations=%d strings_per_ecosystem=%d ecosystems=%d\n", evals, violations, limit, len(ecos))
}
