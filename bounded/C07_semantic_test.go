package semantic

// Bounded stand-in for the order laws of C07 (labelled BOUNDED in the evidence; never counted as proved):
// exhaustive check of no-panic, reflexivity, antisymmetry and transitivity over a generated set of version
// strings per ecosystem, through the real Parse / CompareStr.

import (
	"fmt"
	"os"
	"regexp"
	"strconv"
	"testing"
)

func verifGen(eco string, limit int) []string {
	bases := []string{"1", "1.0", "1.0.0", "1.1", "1.10", "1.2", "2", "0", "1.01", "10.0", "1.0.1", "2.0.0", "0.9", "1.0.10"}
	var sufs []string
	switch eco {
	case "Red Hat":
		sufs = []string{"", "~rc1", "^git1", "~", "^", "-1", "-2", "~rc2", "^git2", ".el8", "-1.el8", "a", "~a", "^a", "_1"}
		bases = append([]string{"1:1.0", "0:1.0", "2:0.1"}, bases...)
	case "Debian", "Ubuntu":
		sufs = []string{"", "~rc1", "-1", "-2", "+b1", "~", "-1ubuntu1", "a", "~a", "+dfsg", "-1~bpo1", ".a"}
		bases = append([]string{"1:1.0", "0:1.0", "2:0.1"}, bases...)
	case "Alpine":
		sufs = []string{"", "-r0", "-r1", "_alpha", "_alpha1", "_beta", "_rc1", "_p1", "_pre", "a", "b", "_git", "-r10", "~hash", "~0abc",
			"_git1~abcdef-r5", "_git1-r5", "_git1-r3", "_p1-r2", "~abc-r1", "a_rc1~0123abc-r0", "_git20240101~0123abc-r0", "_alpha1_p2-r1"}
	case "PyPI":
		sufs = []string{"", "a1", "b1", "rc1", ".post1", ".dev1", "+local", "a", ".post", ".dev", "rc", "+abc.1", "-1", "alpha1", "c1", "pre1"}
		bases = append([]string{"1!1.0", "0!1.0"}, bases...)
	case "Maven":
		sufs = []string{"", "-alpha", "-beta", "-rc", "-SNAPSHOT", "-final", "-ga", "-sp", "-1", ".alpha", "a1", "-alpha-1", "-m1", "-cr1", "-foo", ".RELEASE", "-a"}
	case "Packagist":
		sufs = []string{"", "-alpha", "-beta", "-RC1", "-p1", "-dev", ".99999999999999999999", "-alpha1", "p", "-a", "_1", "+1", ".a"}
		bases = append([]string{"v1.0"}, bases...)
	case "RubyGems":
		sufs = []string{"", ".pre", ".rc1", ".a", ".beta.1", "-1", ".alpha", "a", ".b1"}
	case "NuGet":
		sufs = []string{"", "-alpha", "-beta", "-RC", "-alpha.1", "+build", "-Alpha", ".1", "-1", "-a.b"}
	case "CRAN":
		sufs = []string{"", "-1", ".1", "-0", ".0.0", "-10"}
	default: // semver family
		sufs = []string{"", "-alpha", "-beta", "-rc.1", "-alpha.1", "+build", "-1", "-a.b", ".1", "-alpha.beta", "-0", "-rc.10", "-rc.2"}
		bases = append([]string{"v1.0.0"}, bases...)
	}
	seen := map[string]bool{}
	var out []string
	add := func(v string) {
		if !seen[v] {
			seen[v] = true
			out = append(out, v)
		}
	}
	if eco == "Alpine" {
		// the product of the productions of apk-tools' grammar: number{letter}{_suffix{number}}{~hash}{-r#}, with
		// numeric parts whose string order differs from their numeric order
		for _, num := range []string{"1.2", "1.10", "1.5"} {
			for _, letter := range []string{"", "a"} {
				for _, suf := range []string{"", "_git1", "_rc1", "_p1"} {
					for _, hash := range []string{"", "~abc"} {
						for _, build := range []string{"", "-r0", "-r5"} {
							add(num + letter + suf + hash + build)
						}
					}
				}
			}
		}
	}
	for _, s := range sufs {
		for _, b := range bases {
			add(b + s)
		}
	}
	// a fixed pseudo-random selection (linear congruential shuffle with a constant seed, so every run explores the same
	// strings): a regular stride would keep hitting the same few bases
	if len(out) > limit {
		x := uint64(88172645463325252)
		for i := len(out) - 1; i > 0; i-- {
			x = x*6364136223846793005 + 1442695040888963407
			j := int((x >> 33) % uint64(i+1))
			out[i], out[j] = out[j], out[i]
		}
		out = out[:limit]
	}
	return out
}

var verifAlpineRe = regexp.MustCompile(`^[0-9]+(\.[0-9]+)*[a-z]?(_(alpha|beta|pre|rc|cvs|svn|git|hg|p)[0-9]*)*(~[0-9a-f]+)?(-r[0-9]+)?$`)

// verifGrammarValid: an independent statement of the ecosystem's version grammar where the library itself does not
// reject malformed strings (apk-tools' version grammar for Alpine); elsewhere acceptance by Parse is the criterion.
func verifGrammarValid(eco, v string) bool {
	if eco == "Alpine" {
		return verifAlpineRe.MatchString(v)
	}
	return true
}

func verifCmp(eco, a, b string) (res int, ok bool, panicked interface{}) {
	defer func() {
		if r := recover(); r != nil {
			panicked = r
		}
	}()
	va, err := Parse(a, eco)
	if err != nil {
		return 0, false, nil
	}
	if _, err := Parse(b, eco); err != nil {
		return 0, false, nil
	}
	r, err := va.CompareStr(b)
	if err != nil {
		return 0, false, nil
	}
	return r, true, nil
}

func sgnv(x int) int {
	if x < 0 {
		return -1
	}
	if x > 0 {
		return 1
	}
	return 0
}

func TestVerifBounded(t *testing.T) {
	limit := 24
	if n, err := strconv.Atoi(os.Getenv("VERIF_BOUNDED_N")); err == nil && n > 0 {
		limit = n
	}
	ecos := []string{"Alpine", "ConanCenter", "CRAN", "crates.io", "Debian", "Go", "Hex", "Maven", "npm", "NuGet", "Packagist", "Pub", "PyPI", "Red Hat", "RubyGems", "Ubuntu"}
	evals, violations := 0, 0
	report := func(format string, args ...interface{}) {
		violations++
		if violations <= 5000 {
			fmt.Printf("BOUNDED-VIOLATION "+format+"\n", args...)
		}
	}
	for _, eco := range ecos {
		vs := verifGen(eco, limit)
		n := len(vs)
		cmp := make([][]int, n)
		okm := make([][]bool, n)
		for i := range vs {
			cmp[i] = make([]int, n)
			okm[i] = make([]bool, n)
			for j := range vs {
				r, ok, p := verifCmp(eco, vs[i], vs[j])
				evals++
				if p != nil {
					report("law=no-panic ecosystem=%q a=%q b=%q panic=%v", eco, vs[i], vs[j], p)
					continue
				}
				cmp[i][j], okm[i][j] = sgnv(r), ok
			}
		}
		for i := range vs {
			if okm[i][i] && cmp[i][i] != 0 {
				report("law=reflexive ecosystem=%q a=%q cmp=%d", eco, vs[i], cmp[i][i])
			}
			for j := range vs {
				if okm[i][j] && okm[j][i] && cmp[i][j] != -cmp[j][i] {
					report("law=antisymmetric ecosystem=%q a=%q b=%q cmp(a,b)=%d cmp(b,a)=%d", eco, vs[i], vs[j], cmp[i][j], cmp[j][i])
				}
			}
		}
		// transitivity is demanded of grammar-valid versions only; where the library accepts strings outside the
		// ecosystem's grammar without an error (Alpine), validity is judged by an independent statement of the grammar,
		// not by the library's own 'invalid' flag
		valid := make([]bool, n)
		for i := range vs {
			valid[i] = verifGrammarValid(eco, vs[i])
		}
		for i := range vs {
			for j := range vs {
				if !okm[i][j] || cmp[i][j] > 0 || !valid[i] || !valid[j] {
					continue
				}
				for k := range vs {
					if !okm[j][k] || !okm[i][k] || cmp[j][k] > 0 || !valid[k] {
						continue
					}
					evals++
					// a <= b and b <= c must give a <= c; and a <= b < c or a < b <= c must give a < c
					if cmp[i][k] > 0 || ((cmp[i][j] < 0 || cmp[j][k] < 0) && cmp[i][k] >= 0) {
						report("law=transitive ecosystem=%q a=%q b=%q c=%q cmp(a,b)=%d cmp(b,c)=%d cmp(a,c)=%d", eco, vs[i], vs[j], vs[k], cmp[i][j], cmp[j][k], cmp[i][k])
					}
				}
			}
		}
	}
	fmt.Printf("BOUNDED-SUMMARY evaluations=%d violations=%d strings_per_ecosystem=%d ecosystems=%d\n", evals, violations, limit, len(ecos))
}

// verifChains: strictly ascending chains taken from the ecosystems' published ordering rules (Debian policy 5.6.12,
// rpm's rpmvercmp incl. ~ and ^, PEP 440, RubyGems Gem::Version, semver 2.0.0 section 11, NuGet's SemVer 2 rules,
// apk-tools' version grammar, R's package_version, Composer's version_compare); numbers of 20 and more digits occur in
// every numeric position.  Every pair (i < j) of a chain must compare as smaller, in both argument orders.
var verifChains = map[string][][]string{
	"Debian": {
		{"1.0~~", "1.0~~a", "1.0~", "1.0~rc1", "1.0", "1.0-1", "1.0-1ubuntu1", "1.0-1+b1", "1.0-2", "1.0a", "1.0+b1", "1.0.1", "1.1", "1.2", "1.10", "1:0.1", "2:0"},
		{"0.9", "1.0", "1.00000000000000000000001", "1.99999999999999999999", "1.100000000000000000000"},
		{"1.0-1~bpo1", "1.0-1", "1.0-1.1", "1.0-10"},
	},
	"Ubuntu": {
		{"1.0~rc1", "1.0", "1.0-1", "1.0-1ubuntu1", "1.0-1ubuntu1.1", "1.0-1ubuntu2", "1.0-2"},
	},
	"Red Hat": {
		{"1.0~rc1", "1.0~rc2", "1.0", "1.0^git1", "1.0^git2", "1.0.1", "1.1", "1.10", "1:0.1"},
		{"1.0-1", "1.0-2", "1.0-10", "1.0-10.el8", "1.1-1"},
		{"1.99999999999999999999", "1.100000000000000000000"},
	},
	"PyPI": {
		{"1.0.dev1", "1.0a1.dev1", "1.0a1", "1.0a2", "1.0b1", "1.0rc1", "1.0", "1.0+local", "1.0.post1.dev1", "1.0.post1", "1.0.1", "1.1", "1.10", "1!0.1"},
		{"1.99999999999999999999", "1.100000000000000000000"},
		{"1.0a99999999999999999999", "1.0a100000000000000000000"},
	},
	"RubyGems": {
		{"1.0.a", "1.0.b1", "1.0.rc1", "1.0", "1.0.1", "1.1", "1.10"},
		{"1.99999999999999999999", "1.100000000000000000000"},
	},
	"npm": {
		{"1.0.0-0", "1.0.0-1", "1.0.0-10", "1.0.0-99999999999999999999", "1.0.0-100000000000000000000", "1.0.0-a", "1.0.0-alpha", "1.0.0-alpha.1", "1.0.0-alpha.beta", "1.0.0-beta", "1.0.0-beta.2", "1.0.0-beta.11", "1.0.0-rc.1", "1.0.0", "1.0.1", "1.1.0", "1.10.0", "2.0.0"},
		{"1.0.0-rc.99999999999999999999", "1.0.0-rc.100000000000000000000", "1.0.0-rc.a"},
		{"1.99999999999999999999.0", "1.100000000000000000000.0"},
	},
	"crates.io": {
		{"1.0.0-alpha", "1.0.0-alpha.1", "1.0.0-beta", "1.0.0-rc.1", "1.0.0", "1.0.1"},
		{"1.0.0-99999999999999999999", "1.0.0-100000000000000000000", "1.0.0---"},
	},
	"Go": {
		{"1.0.0-alpha", "1.0.0-alpha.1", "1.0.0-rc.1", "1.0.0", "1.0.1", "1.1.0"},
		{"1.0.0-rc.99999999999999999999", "1.0.0-rc.100000000000000000000"},
	},
	"NuGet": {
		{"1.0.0-alpha", "1.0.0-alpha.1", "1.0.0-beta", "1.0.0-rc", "1.0.0", "1.0.1", "1.1.0"},
		{"1.0.0-rc.99999999999999999999", "1.0.0-rc.100000000000000000000"},
	},
	"Alpine": {
		{"1.0_alpha", "1.0_alpha1", "1.0_beta", "1.0_pre", "1.0_rc", "1.0_rc1", "1.0", "1.0-r1", "1.0-r10", "1.0_p1", "1.0a", "1.0.1", "1.1", "1.10"},
		{"1.0_git1-r3", "1.0_git1~abc-r5", "1.0_git2-r0"},
	},
	"CRAN": {
		{"1.0", "1.0-1", "1.0.2", "1.1", "1.10", "2.0"},
		{"1.99999999999999999999", "1.100000000000000000000"},
	},
	"Packagist": {
		{"1.0-dev", "1.0-alpha", "1.0-alpha1", "1.0-beta", "1.0-RC1", "1.0", "1.0.1", "1.1", "1.10"},
		{"1.0-RC1", "1.0", "1.0-p1"},
	},
}

// verifEqual: groups of spellings the published rules declare equal (a missing epoch is epoch 0, a missing Debian
// revision is revision 0, trailing zero components, build metadata, a leading v).
var verifEqual = map[string][][]string{
	"Red Hat":  {{"1.0-1", "0:1.0-1"}, {"2.0", "0:2.0"}},
	"Debian":   {{"1.0", "0:1.0", "1.0-0"}, {"1.0-1", "0:1.0-1"}},
	"Ubuntu":   {{"1.0-1ubuntu1", "0:1.0-1ubuntu1"}},
	"PyPI":     {{"1.0", "1.0.0", "0!1.0", "1.0.0.0"}, {"1.0a1", "1.0alpha1", "1.0.a1"}, {"1.0rc1", "1.0c1"}, {"1.0.post1", "1.0-1"}},
	"RubyGems": {{"1.0", "1.0.0"}},
	"NuGet":    {{"1.0.0", "1.0.0+build", "1.0.0.0"}, {"1.0.0-alpha", "1.0.0-ALPHA"}},
	"npm":      {{"1.0.0", "1.0.0+build", "v1.0.0"}},
	"CRAN":     {{"1.0-1", "1.0.1"}},
	"Alpine":   {{"1.0", "1.0-r0"}},
}

// verifMixed: ascending chains that mix spellings with and without an explicit epoch 0.
var verifMixed = map[string][][]string{
	"Red Hat": {{"0:1.0-1", "2.0-1", "0:2.0-2", "1:0.1-1"}},
	"Debian":  {{"0:1.0-1", "2.0-1", "0:2.0-2", "1:0.1-1"}},
	"PyPI":    {{"0!1.0", "2.0", "0!2.1", "1!0.1"}},
}

func TestVerifBoundedEqual(t *testing.T) {
	evals, violations := 0, 0
	for eco, groups := range verifEqual {
		for _, g := range groups {
			for i := range g {
				for j := range g {
					r, ok, p := verifCmp(eco, g[i], g[j])
					evals++
					if p != nil || !ok || r != 0 {
						violations++
						fmt.Printf("BOUNDED-VIOLATION law=published-equal ecosystem=%q a=%q b=%q cmp(a,b)=%d accepted=%v panic=%v\n", eco, g[i], g[j], sgnv(r), ok, p)
					}
				}
			}
		}
	}
	for eco, chains := range verifMixed {
		for _, ch := range chains {
			for i := range ch {
				for j := range ch {
					if i == j {
						continue
					}
					r, ok, _ := verifCmp(eco, ch[i], ch[j])
					evals++
					want := -1
					if i > j {
						want = 1
					}
					if !ok || sgnv(r) != want {
						violations++
						fmt.Printf("BOUNDED-VIOLATION law=published-order ecosystem=%q a=%q b=%q cmp(a,b)=%d accepted=%v want=%d\n", eco, ch[i], ch[j], sgnv(r), ok, want)
					}
				}
			}
		}
	}
	fmt.Printf("BOUNDED-EQUAL evaluations=%d violations=%d\n", evals, violations)
}

func TestVerifBoundedChains(t *testing.T) {
	evals, violations := 0, 0
	for eco, chains := range verifChains {
		for _, ch := range chains {
			for i := range ch {
				for j := range ch {
					if i == j {
						continue
					}
					r, ok, p := verifCmp(eco, ch[i], ch[j])
					evals++
					want := -1
					if i > j {
						want = 1
					}
					if p != nil {
						violations++
						fmt.Printf("BOUNDED-VIOLATION law=no-panic ecosystem=%q a=%q b=%q panic=%v\n", eco, ch[i], ch[j], p)
					} else if !ok || sgnv(r) != want {
						violations++
						fmt.Printf("BOUNDED-VIOLATION law=published-order ecosystem=%q a=%q b=%q cmp(a,b)=%d accepted=%v want=%d\n", eco, ch[i], ch[j], sgnv(r), ok, want)
					}
				}
			}
		}
	}
	fmt.Printf("BOUNDED-CHAINS evaluations=%d violations=%d\n", evals, violations)
}
