#!/bin/sh
# usage: check.sh <property> [quick|thorough]
# Rebuilds the verifier if needed, then generates and discharges the obligations of one property from /repo's working tree.
cd "$(dirname "$0")"
export GOFLAGS=-mod=mod GOPROXY=off
if [ ! -x bin/govc ] || [ -n "$(find govc -newer bin/govc -name '*.go' 2>/dev/null | head -1)" ]; then
  ./setup.sh >&2 || exit 2
fi
TIER="${2:-${VERIF_TIER:-quick}}"
exec ./bin/govc check "$1" --tier "$TIER"
