#!/bin/bash
# Imports a sub-agent's seeded change from its scratch worktree /tmp/seedwt-<id> into seeded/<id>/ and confirms it in a
# second, fresh scratch worktree (outside /repo and /verif): builds, existing tests of the touched packages pass, the
# demonstration fails with the change and passes without it. Usage: ./import_seed.sh <id>
cd "$(dirname "$0")"
id=$1; src=/tmp/seedwt-$id; export GOFLAGS=-mod=mod GOPROXY=off
[ -f $src/seed.patch ] || { echo "no seed.patch in $src"; exit 1; }
mkdir -p seeded/$id
cp $src/seed.patch seeded/$id/patch.diff
cp $src/seed_meta.json seeded/$id/meta.json
demo=$(python3 -c "import json;print(json.load(open('seeded/$id/meta.json'))['demo_path'])")
cp $src/seed_demo_test.go.txt seeded/$id/$(basename $demo).txt
cf=/tmp/seedconfirm-$id
git -C /repo worktree remove --force $cf 2>/dev/null
git -C /repo worktree add -q --detach $cf seedbase || exit 1
pkgs=$(grep "^+++ b/" seeded/$id/patch.diff | sed 's|+++ b/||' | xargs -n1 dirname | sort -u | sed 's|^|./|')
demopkg=./$(dirname $demo)
cd $cf
git apply $OLDPWD/seeded/$id/patch.diff || { echo "patch does not apply"; exit 1; }
b=false; go build ./... 2>/tmp/seedc.err && b=true
t=$(go test -vet=off -count=1 $pkgs 2>&1 | grep -c "^--- FAIL")
cp $OLDPWD/seeded/$id/$(basename $demo).txt $demo
with=$(go test -vet=off -count=1 -run 'Seed|seed' $demopkg 2>&1 | grep -c "^--- FAIL\|^FAIL\|panic:")
git apply -R $OLDPWD/seeded/$id/patch.diff
t0=$(go test -vet=off -count=1 $pkgs 2>&1 | grep -c "^--- FAIL")
without=$(go test -vet=off -count=1 -run 'Seed|seed' $demopkg 2>&1 | grep -c "^--- FAIL\|^FAIL\|panic:")
cd /verif
git -C /repo worktree remove --force $cf
python3 - "$id" "$b" "$t" "$t0" "$with" "$without" <<'PY'
import json,sys
id,b,t,t0,w,wo=sys.argv[1:]
p='seeded/%s/meta.json'%id
d=json.load(open(p))
d['confirmed']={"by":"main session, fresh scratch worktree (seedbase = /repo HEAD without hook files)","builds":b=="true","existing_test_failures_with_change":int(t),"existing_test_failures_without_change":int(t0),"demo_fails_with_change":int(w)>0,"demo_passes_without":int(wo)==0}
json.dump(d,open(p,'w'),indent=1)
print(id,d['property'],d['confirmed'])
PY
