#!/bin/bash
# Runs the quick check of every claimed property on /repo's current tree (rewrites evidence/*.json) and validates the
# evidence files and the manifest against their schemas. Exit 0 only if every check exits 0.
cd "$(dirname "$0")"
rc=0
for p in $(python3 -c "import json;print(' '.join(c['property_id'] for c in json.load(open('MANIFEST.json'))['checks']))"); do
  out=$(./check.sh $p ${1:-quick} 2>&1); r=$?
  echo "$out" | grep "^VIOLATION\|^KNOWN-FINDING\|^ENGINE\|^UNDECIDED\|baseline obligations were not generated\|^$p:" | cut -c1-200
  [ $r -ne 0 ] && rc=1
  # on the unchanged tree a contract that cannot be interpreted, or a baseline obligation that is no longer generated,
  # is a defect of the machinery (the check silently covers less): fail loudly here, before anything is committed
  if echo "$out" | grep -q "^UNDECIDED: contract\|baseline obligations were not generated\|^ENGINE-ERROR"; then echo "run_all: $p covers less than its baseline"; rc=1; fi
done
python3-vt - <<'PY'
import json,jsonschema,glob,sys
m=json.load(open('MANIFEST.json'))
jsonschema.validate(m, json.load(open('/root/.vp/MANIFEST.schema.json')))
sch=json.load(open('/root/.vp/EVIDENCE.schema.json'))
for c in m['checks']:
    e=json.load(open(c['evidence_file'])); jsonschema.validate(e, sch)
    cov=e['coverage']
    assert cov['obligations']==cov['discharged'], (c['property_id'],cov['obligations'],cov['discharged'])
    assert isinstance(cov['trusted_base'],list)
print('manifest and evidence files valid')
PY
exit $rc
