#!/bin/sh
# Builds the verifier from files on disk only (offline).
set -e
cd "$(dirname "$0")/govc"
export GOFLAGS=-mod=mod GOPROXY=off
mkdir -p ../bin
go build -o ../bin/govc .
