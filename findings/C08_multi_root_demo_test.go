package filesystem_test

import (
	"context"
	"testing"
	"testing/fstest"

	"github.com/google/osv-scalibr/extractor/filesystem"
	scalibrfs "github.com/google/osv-scalibr/fs"
	fe "github.com/google/osv-scalibr/testing/fakeextractor"
	"github.com/google/osv-scalibr/stats"
)

func TestVerifMultiRoot(t *testing.T) {
	a := fstest.MapFS{"a.txt": {Data: []byte("x")}}
	b := fstest.MapFS{"b.txt": {Data: []byte("x")}}
	ex := fe.New("ex", 1, []string{"a.txt", "b.txt"}, map[string]fe.NamesErr{"a.txt": {Names: []string{"pa"}}, "b.txt": {Names: []string{"pb"}}})
	cfg := &filesystem.Config{Stats: stats.NoopCollector{}, Extractors: []filesystem.Extractor{ex}, ScanRoots: []*scalibrfs.ScanRoot{{FS: a}, {FS: b}}}
	inv, st, err := filesystem.Run(context.Background(), cfg)
	if err != nil {
		t.Fatal(err)
	}
	if len(inv.Packages) != 2 || len(st) != 1 {
		t.Fatalf("got %d packages, %d statuses; want 2 and 1", len(inv.Packages), len(st))
	}
}
