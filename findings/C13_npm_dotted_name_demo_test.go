package npm

import (
	"os"
	"path/filepath"
	"strings"
	"testing"

	"deps.dev/util/resolve/dep"
	scalibrfs "github.com/google/osv-scalibr/fs"
	"github.com/google/osv-scalibr/guidedremediation/result"
)

func TestVerifDottedName(t *testing.T) {
	dir := t.TempDir()
	os.WriteFile(filepath.Join(dir, "package.json"), []byte(`{"name":"x","dependencies":{"socket.io":"1.0.0"}}`), 0644)
	fsys := scalibrfs.DirFS(dir)
	rw, _ := GetReadWriter("")
	m, err := rw.Read("package.json", fsys)
	if err != nil {
		t.Fatal(err)
	}
	out := filepath.Join(dir, "out.json")
	err = rw.Write(m, fsys, []result.Patch{{PackageUpdates: []result.PackageUpdate{{Name: "socket.io", VersionFrom: "1.0.0", VersionTo: "2.0.0", Type: dep.NewType()}}}}, out)
	b, _ := os.ReadFile(out)
	if err == nil && !strings.Contains(string(b), `"socket.io":"2.0.0"`) {
		t.Fatalf("Write reported success but socket.io was not updated: %s", b)
	}
}
