package image

import (
	"testing"

	"github.com/google/osv-scalibr/artifact/image/pathtree"
)

func TestVerifWhiteoutAncestor(t *testing.T) {
	tree := pathtree.NewNode[fileNode]()
	_ = tree.Insert("/a", &fileNode{virtualPath: "/a", isWhiteout: true})
	layer := &chainLayer{fileNodeTree: tree}
	if !inWhiteoutDir(layer, "/a/b/c.txt") {
		t.Fatalf("/a/b/c.txt is not recognised as lying under the whited-out directory /a")
	}
}
