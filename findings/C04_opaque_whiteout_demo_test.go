package image

import (
	"archive/tar"
	"bytes"
	"io"
	"testing"

	v1 "github.com/google/go-containerregistry/pkg/v1"
	"github.com/google/go-containerregistry/pkg/v1/empty"
	"github.com/google/go-containerregistry/pkg/v1/mutate"
	"github.com/google/go-containerregistry/pkg/v1/tarball"
)

type vent struct {
	name string
	typ  byte
	body string
}

func vlayer(t *testing.T, es []vent) v1.Layer {
	var buf bytes.Buffer
	w := tar.NewWriter(&buf)
	for _, e := range es {
		w.WriteHeader(&tar.Header{Name: e.name, Typeflag: e.typ, Mode: 0644, Size: int64(len(e.body))})
		w.Write([]byte(e.body))
	}
	w.Close()
	b := buf.Bytes()
	l, err := tarball.LayerFromOpener(func() (io.ReadCloser, error) { return io.NopCloser(bytes.NewReader(b)), nil })
	if err != nil {
		t.Fatal(err)
	}
	return l
}

func TestVerifOpaqueWhiteout(t *testing.T) {
	l0 := vlayer(t, []vent{{"d/", tar.TypeDir, ""}, {"d/x.txt", tar.TypeReg, "x"}})
	l1 := vlayer(t, []vent{{"d/", tar.TypeDir, ""}, {"d/.wh..wh..opq", tar.TypeReg, ""}, {"d/y.txt", tar.TypeReg, "y"}})
	im, err := mutate.AppendLayers(empty.Image, l0, l1)
	if err != nil {
		t.Fatal(err)
	}
	img, err := FromV1Image(im, DefaultConfig())
	if err != nil {
		t.Fatal(err)
	}
	defer img.CleanUp()
	cls, _ := img.ChainLayers()
	fsys := cls[len(cls)-1].FS()
	if _, err := fsys.Stat("d/y.txt"); err != nil {
		t.Errorf("d/y.txt missing: %v", err)
	}
	if _, err := fsys.Stat("d/x.txt"); err == nil {
		t.Errorf("OPAQUE-WHITEOUT-IGNORED: d/x.txt of the lower layer is still visible although layer 1 has d/.wh..wh..opq")
	}
}
