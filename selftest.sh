#!/bin/bash
# Must-fail corpus. (1) every seeded change under seeded/ (run_seeded.sh); (2) every repaired defect of known-findings.json:
# the fix commit is reverted in /repo's working tree (non-test files only, undone straight afterwards) and the property's
# quick check must report a VIOLATION naming one of the obligations recorded for that finding.
# (3) every hand-made mutant under canaries/<name>.diff (+ .json naming the property it breaks).
# A fix-revert that removes a function under contract leaves the contract uninterpretable (UNDECIDED, no alarm by
# design); those are reported as "undecidable" and do not fail the self-test - a canary covers the same defect.
# Usage: ./selftest.sh [fixes|seeds|canaries|benign|all] [name-filter for canaries]   Exit 0 iff every canary is detected (seeds known to be out of reach excepted).
cd "$(dirname "$0")"
export GOFLAGS=-mod=mod GOPROXY=off
mode=${1:-all}; only=${2:-}; rc=0
if ! git -C /repo diff --quiet; then echo "/repo has uncommitted changes; aborting"; exit 2; fi
if [ "$mode" = fixes ] || [ "$mode" = all ]; then
python3 - <<'PY' > /tmp/selftest_fixes.$$
import json,subprocess
d=json.load(open('known-findings.json'))
log=subprocess.run(['git','-C','/repo','log','--format=%H %s'],capture_output=True,text=True).stdout.splitlines()
for f in d['findings']:
    if f.get('status')!='fixed': continue
    hs=[l.split(' ',1)[0] for l in log if l.split(' ',1)[1].strip()==f['commit'].strip()]
    print(f['property'], hs[0] if hs else 'NOCOMMIT', json.dumps(f['obligations']))
PY
while read -r prop hash obls; do
  if [ "$hash" = NOCOMMIT ]; then echo "fix-revert $prop: commit not found"; rc=1; continue; fi
  files=$(git -C /repo show --format= --name-only $hash | grep -v "_test.go$" | grep -v "/testdata/")
  if ! git -C /repo show --format= $hash -- $files | git -C /repo apply -R 2>/dev/null; then
    echo "fix-revert $prop $hash: revert does not apply (later commits touch the same lines); skipped"; git -C /repo checkout -- .; continue; fi
  out=$(./check.sh $prop quick 2>&1)
  git -C /repo checkout -- .
  echo "$out" | grep '^VIOLATION' > /tmp/selftest_out.$$
  hit=$(python3 -c '
import sys,json
obls=json.loads(sys.argv[1]); out=open(sys.argv[2]).read().replace("\\\"","\"")
print(sum(1 for o in obls if o in out))' "$obls" /tmp/selftest_out.$$)
  rm -f /tmp/selftest_out.$$
  nv=$(echo "$out" | grep -c "^VIOLATION property=$prop")
  if [ "$nv" -gt 0 ]; then echo "fix-revert $prop ${hash:0:8}: detected ($nv violations, $hit of the recorded obligations named)";
  elif echo "$out" | grep -q "^UNDECIDED: contract not interpretable\|^UNDECIDED property="; then echo "fix-revert $prop ${hash:0:8}: undecidable (the revert removes a function the contract names)";
  else echo "fix-revert $prop ${hash:0:8}: NOT DETECTED"; rc=1; fi
done < /tmp/selftest_fixes.$$
rm -f /tmp/selftest_fixes.$$
fi
if [ "$mode" = canaries ] || [ "$mode" = all ]; then
  for d in canaries/*${only}*.diff; do
    n=$(basename $d .diff); prop=$(python3 -c "import json;print(json.load(open('canaries/$n.json'))['property'])")
    if ! git -C /repo apply "$PWD/$d" 2>/dev/null; then echo "canary $n: patch does not apply"; rc=1; git -C /repo checkout -- .; continue; fi
    out=$(./check.sh $prop quick 2>&1)
    git -C /repo checkout -- .
    nv=$(echo "$out" | grep -c "^VIOLATION property=$prop")
    first=$(echo "$out" | grep "^VIOLATION" | head -1 | sed 's/.*obligation=//' | cut -c1-150)
    if [ "$nv" -gt 0 ]; then echo "canary $n: detected ($nv) $first"; else echo "canary $n: NOT DETECTED"; rc=1; fi
  done
fi
if [ "$mode" = benign ] || [ "$mode" = all ]; then
  # must-pass corpus: behaviour-preserving edits of functions under contract (renames, hoisted locals, reordered
  # independent statements, equivalent rewrites); the property's quick check must stay quiet
  for d in benign/*${only}*.diff; do
    n=$(basename $d .diff); prop=$(python3 -c "import json;print(json.load(open('benign/$n.json'))['property'])")
    if ! git -C /repo apply "$PWD/$d" 2>/dev/null; then echo "benign $n: patch does not apply"; rc=1; git -C /repo checkout -- .; continue; fi
    out=$(./check.sh $prop quick 2>&1); ec=$?
    git -C /repo checkout -- .
    nv=$(echo "$out" | grep -c "^VIOLATION")
    und=$(echo "$out" | grep -c "^UNDECIDED: contract")
    if [ "$nv" -eq 0 ] && [ "$ec" -eq 0 ]; then echo "benign $n: quiet (exit 0, $und contract clauses undecided)"; else echo "benign $n: FALSE ALARM ($nv) $(echo "$out" | grep "^VIOLATION" | head -1 | sed 's/.*obligation=//' | cut -c1-150)"; rc=1; fi
  done
fi
if [ "$mode" = seeds ] || [ "$mode" = all ]; then
  ./run_seeded.sh | while read -r line; do
    echo "seed $line"
  done
fi
exit $rc
